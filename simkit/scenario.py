"""Shared scaffolding for engines: build a world from a plan, run a main
coroutine on it, and summarise the execution."""
from __future__ import annotations

import hashlib
import random
import traceback

from . import loop as L
from . import patch
from .cluster import NEWEST, Cluster
from .faults import FaultEngine
from .group import GroupCoordinatorModel
from .txn import TxnCoordinatorModel
from .world import World


def subseed(seed, *parts):
    h = hashlib.blake2b(digest_size=8)
    h.update(repr((seed,) + parts).encode())
    return int.from_bytes(h.digest(), "big")


def rng_for(seed, *parts):
    return random.Random(subseed(seed, *parts))


def make_world(plan):
    c = plan.get("cluster", {})
    w = World(plan["seed"], iter_cost=c.get("iter_cost", 0.0),
              max_iters=plan.get("max_iters", 400_000))
    cl = Cluster(w, c.get("brokers", 1))
    TxnCoordinatorModel(cl)
    GroupCoordinatorModel(cl)
    if "lat" in c:
        w.net.lat_lo, w.net.lat_hi = c["lat"]
    w.net.chunk_mode = c.get("chunk", "random")
    w.net.coalesce_eof = bool(c.get("coalesce_eof", False))
    if c.get("const_latency") is not None:
        w.net.const_latency = c["const_latency"]
    cl.service_time = c.get("service_time", 0.0005)
    cl.fetch_cut = c.get("fetch_cut", "bytes")
    cl.max_request_timeout = c.get("max_request_timeout", 5.0)
    api = c.get("api_versions")
    by_node = c.get("api_versions_by_node") or {}
    for b in cl.brokers.values():
        tab = dict(NEWEST)
        api_b = by_node.get(str(b.node_id), api)
        if api_b:
            for k, rng in api_b.items():
                if rng is None:
                    tab.pop(int(k), None)
                else:
                    tab[int(k)] = tuple(rng)
        b.api_versions = tab
    for name, t in c.get("topics", {}).items():
        top = cl.create_topic(name, t.get("partitions", 1), t.get("ts_type", 0),
                              internal=t.get("internal", False),
                              authorized=t.get("authorized", True))
        leaders = t.get("leaders")
        if leaders:
            for p, node in zip(top.partitions, leaders):
                p.leader = node
    if "marker_delay" in c:
        cl.txns.marker_delay = tuple(c["marker_delay"])
    if "initial_rebalance_delay" in c:
        cl.groups.initial_delay = c["initial_rebalance_delay"]
    FaultEngine(w, plan.get("faults", []))
    return w, cl


# properties with a progress clause: a client that spins at one virtual instant can never
# meet it ("within bounded time", "delivery continues", "converges", "terminates")
LIVENESS_PROPS = {"C02", "C03", "C04", "C06", "C07", "C08", "C13", "C16", "C19"}


class RunResult(dict):
    pass


def signature(world):
    h = hashlib.sha1()
    for e in world.log.events:
        kind = e[2]
        if kind == "s_req":
            h.update(f"q{e[4]}{e[5]}".encode())
        elif kind == "fault":
            h.update(f"f{e[4]}".encode())
        elif kind in ("c_close", "c_eof", "c_reset", "s_close", "leader_move", "VIOLATION",
                      "harness", "grp", "txn"):
            h.update(f"{kind}{e[3] if len(e) > 3 and isinstance(e[3], str) else ''}".encode())
    return h.hexdigest()[:16]


def run(plan, world, main, *, extra=None):
    """Run main() on the world's loop.  Returns a RunResult; never raises for
    problems inside the simulated execution."""
    patch.begin_run(plan["seed"])
    status = "ok"
    detail = None
    try:
        L.run(world.loop, main())
    except L.Quiescent:
        status = "quiescent"
        detail = _task_stacks(world)
    except L.StepLimit as exc:
        status = "steplimit"
        detail = {"msg": str(exc), "spin": world.loop.spin_trace[-40:], "stacks": _task_stacks(world)}
        owners = [o for o in world.loop.spin_owners[-40:]]
        client = sorted({o for o in owners if o != "sim"})
        if "at t=" in str(exc) and client and plan.get("prop") in LIVENESS_PROPS \
                and sum(1 for o in owners if o != "sim") >= len(owners) // 2:
            # the client's own tasks wake each other for ever without the clock being
            # able to advance: a livelock of the client, not a fault of the harness
            status = "spin"
            world.violation(plan["prop"], "client_busy_spin_without_progress", {
                "owners": client, "t": world.now() - world.t0,
                "callbacks": sorted(set(world.loop.spin_trace[-40:]))[:6],
                "faults": dict(world.fault_counts)})
    except L.HarnessError as exc:
        status = "harness_error"
        detail = repr(exc)
    except Exception as exc:  # noqa: BLE001  harness/main bug
        status = "main_exception"
        detail = "".join(traceback.format_exception(exc))[-3000:]
    finally:
        L.hard_close(world.loop)
        patch.end_run()
    res = RunResult(
        status=status, detail=detail,
        digest=world.log.digest(), sig=signature(world),
        events=len(world.log.events), fired=world.loop.fired, iters=world.loop.iters,
        virt=world.now() - world.t0,
        faults=dict(world.fault_counts), probes=dict(world.probes),
        violations=[list(v) for v in world.violations],
    )
    if extra:
        res.update(extra)
    return res


def _task_stacks(world, limit=4):
    out = []
    for t in world.loop.all_tasks_created:
        if not t.done():
            try:
                st = t.get_stack(limit=limit)
                ctx = t.get_context()
                out.append({"task": t.get_name(), "owner": ctx.get(L.OWNER, "sim"),
                            "stack": [f"{f.f_code.co_filename.rsplit('/', 1)[-1]}:{f.f_lineno}"
                                      for f in st]})
            except Exception:  # noqa: BLE001
                pass
    return out[:30]


def finish(res, world, sig=None):
    """Refresh the summary after the oracles ran (they add probes / violations)."""
    res["probes"] = dict(world.probes)
    res["faults"] = dict(world.fault_counts)
    res["violations"] = [list(v) for v in world.violations]
    if sig is not None:
        res["sig"] = hashlib.sha1(repr(sig).encode()).hexdigest()[:16]
    return res
