"""Independent Kafka wire codec used by the simulated brokers.

Nothing here imports aiokafka.  Schemas are hand-written from the Kafka
protocol definition (https://kafka.apache.org/protocol) in a tiny DSL:

    name:type            primitive field
    name:[ ... ]         array of structs
    name:[type]          array of primitives
    name:?[ ... ]        nullable array

types: int8 int16 int32 int64 uint32 bool string nstring bytes nbytes records
       (flexible:) cstring cnstring cbytes cnbytes uvarint tags  and {..} carrays
"""
from __future__ import annotations

import struct

# --------------------------------------------------------------------------
# primitives


class WireError(Exception):
    pass


class Reader:
    __slots__ = ("buf", "pos")

    def __init__(self, buf, pos=0):
        self.buf = bytes(buf)
        self.pos = pos

    def take(self, n):
        if n < 0 or self.pos + n > len(self.buf):
            raise WireError(f"short read: need {n} at {self.pos} of {len(self.buf)}")
        b = self.buf[self.pos:self.pos + n]
        self.pos += n
        return b

    def remaining(self):
        return len(self.buf) - self.pos


def _uvarint_dec(r):
    shift = 0
    val = 0
    while True:
        b = r.take(1)[0]
        val |= (b & 0x7F) << shift
        if not b & 0x80:
            return val
        shift += 7
        if shift > 63:
            raise WireError("uvarint too long")


def _uvarint_enc(v):
    out = bytearray()
    while True:
        b = v & 0x7F
        v >>= 7
        if v:
            out.append(b | 0x80)
        else:
            out.append(b)
            return bytes(out)


_FIXED = {
    "int8": ">b", "int16": ">h", "int32": ">i", "int64": ">q", "uint32": ">I",
}


def dec_prim(t, r):
    if t in _FIXED:
        f = _FIXED[t]
        return struct.unpack(f, r.take(struct.calcsize(f)))[0]
    if t == "bool":
        return r.take(1)[0] != 0
    if t in ("string", "nstring"):
        n = struct.unpack(">h", r.take(2))[0]
        if n < 0:
            if t == "string" and n != -1:
                raise WireError("negative string length")
            return None
        return r.take(n).decode("utf-8")
    if t in ("bytes", "nbytes", "records"):
        n = struct.unpack(">i", r.take(4))[0]
        if n < 0:
            return None
        return r.take(n)
    if t in ("cstring", "cnstring"):
        n = _uvarint_dec(r)
        if n == 0:
            return None
        return r.take(n - 1).decode("utf-8")
    if t in ("cbytes", "cnbytes"):
        n = _uvarint_dec(r)
        if n == 0:
            return None
        return r.take(n - 1)
    if t == "uvarint":
        return _uvarint_dec(r)
    if t == "tags":
        n = _uvarint_dec(r)
        tags = {}
        for _ in range(n):
            tag = _uvarint_dec(r)
            size = _uvarint_dec(r)
            tags[tag] = r.take(size)
        return tags
    raise WireError(f"unknown type {t}")


def enc_prim(t, v):
    if t in _FIXED:
        return struct.pack(_FIXED[t], v)
    if t == "bool":
        return b"\x01" if v else b"\x00"
    if t in ("string", "nstring"):
        if v is None:
            return struct.pack(">h", -1)
        b = v.encode("utf-8")
        return struct.pack(">h", len(b)) + b
    if t in ("bytes", "nbytes", "records"):
        if v is None:
            return struct.pack(">i", -1)
        return struct.pack(">i", len(v)) + bytes(v)
    if t in ("cstring", "cnstring"):
        if v is None:
            return b"\x00"
        b = v.encode("utf-8")
        return _uvarint_enc(len(b) + 1) + b
    if t in ("cbytes", "cnbytes"):
        if v is None:
            return b"\x00"
        return _uvarint_enc(len(v) + 1) + bytes(v)
    if t == "uvarint":
        return _uvarint_enc(v)
    if t == "tags":
        out = _uvarint_enc(len(v or {}))
        for tag in sorted(v or {}):
            out += _uvarint_enc(tag) + _uvarint_enc(len(v[tag])) + v[tag]
        return out
    raise WireError(f"unknown type {t}")


# --------------------------------------------------------------------------
# schema DSL


def parse_schema(text):
    toks = text.replace("[", " [ ").replace("]", " ] ").replace("{", " { ").replace(
        "}", " } ").split()
    pos = 0

    def fields(closer):
        nonlocal pos
        out = []
        while pos < len(toks) and toks[pos] != closer:
            tok = toks[pos]
            pos += 1
            if ":" not in tok:
                raise ValueError(f"bad token {tok!r} in {text!r}")
            name, typ = tok.split(":", 1)
            if typ in ("", "?") and pos < len(toks) and toks[pos] in ("[", "{"):
                opener = toks[pos]
                close = "]" if opener == "[" else "}"
                pos += 1
                # primitive array?
                if pos + 1 < len(toks) and toks[pos + 1] == close and ":" not in toks[pos]:
                    inner = toks[pos]
                    pos += 2
                else:
                    inner = fields(close)
                    pos += 1
                out.append((name, ("array", inner, typ == "?", opener == "{")))
            else:
                out.append((name, typ))
        return out

    res = fields(None)
    return res


def decode(schema, r):
    out = {}
    for name, typ in schema:
        if isinstance(typ, tuple):
            _, inner, nullable, compact = typ
            if compact:
                n = _uvarint_dec(r) - 1
            else:
                n = struct.unpack(">i", r.take(4))[0]
            if n < 0:
                if not nullable and n != -1:
                    raise WireError(f"negative array length for {name}")
                out[name] = None
                continue
            if n > r.remaining():
                raise WireError(f"array length {n} exceeds remaining bytes")
            if isinstance(inner, str):
                out[name] = [dec_prim(inner, r) for _ in range(n)]
            else:
                out[name] = [decode(inner, r) for _ in range(n)]
        else:
            out[name] = dec_prim(typ, r)
    return out


_DEFAULTS = {"throttle_time_ms": 0, "tags": {}}


def encode(schema, obj):
    out = []
    for name, typ in schema:
        if name in obj:
            v = obj[name]
        elif name in _DEFAULTS:
            v = _DEFAULTS[name]
        else:
            raise KeyError(f"missing field {name!r} (have {sorted(obj)})")
        if isinstance(typ, tuple):
            _, inner, nullable, compact = typ
            if v is None:
                out.append(b"\x00" if compact else struct.pack(">i", -1))
                continue
            out.append(_uvarint_enc(len(v) + 1) if compact else struct.pack(">i", len(v)))
            if isinstance(inner, str):
                out.extend(enc_prim(inner, x) for x in v)
            else:
                out.extend(encode(inner, x) for x in v)
        else:
            out.append(enc_prim(typ, v))
    return b"".join(out)


# --------------------------------------------------------------------------
# API tables: (api_key, version) -> (request schema, response schema, flexible)

API = {}
NAMES = {
    0: "Produce", 1: "Fetch", 2: "ListOffsets", 3: "Metadata", 8: "OffsetCommit",
    9: "OffsetFetch", 10: "FindCoordinator", 11: "JoinGroup", 12: "Heartbeat",
    13: "LeaveGroup", 14: "SyncGroup", 17: "SaslHandshake", 18: "ApiVersions",
    21: "DeleteRecords", 22: "InitProducerId", 24: "AddPartitionsToTxn",
    25: "AddOffsetsToTxn", 26: "EndTxn", 28: "TxnOffsetCommit",
    36: "SaslAuthenticate", 46: "ListPartitionReassignments",
}
KEYS = {v: k for k, v in NAMES.items()}


def _api(key, versions, req, resp, flexible=False):
    rq = parse_schema(req)
    rs = parse_schema(resp)
    for v in versions:
        API[(key, v)] = (rq, rs, flexible)


# ApiVersions ---------------------------------------------------------------
_api(18, [0], "", "error_code:int16 api_keys:[api_key:int16 min_version:int16 max_version:int16]")

# Metadata --------------------------------------------------------------------
_P0 = "partitions:[error_code:int16 partition:int32 leader:int32 replicas:[int32] isr:[int32]]"
_P5 = ("partitions:[error_code:int16 partition:int32 leader:int32 replicas:[int32] "
       "isr:[int32] offline_replicas:[int32]]")
_api(3, [0], "topics:[string]",
     f"brokers:[node_id:int32 host:string port:int32] topics:[error_code:int16 name:string {_P0}]")
_api(3, [1], "topics:?[string]",
     "brokers:[node_id:int32 host:string port:int32 rack:nstring] controller_id:int32 "
     f"topics:[error_code:int16 name:string is_internal:bool {_P0}]")
_api(3, [2], "topics:?[string]",
     "brokers:[node_id:int32 host:string port:int32 rack:nstring] cluster_id:nstring "
     f"controller_id:int32 topics:[error_code:int16 name:string is_internal:bool {_P0}]")
_api(3, [3], "topics:?[string]",
     "throttle_time_ms:int32 brokers:[node_id:int32 host:string port:int32 rack:nstring] "
     f"cluster_id:nstring controller_id:int32 topics:[error_code:int16 name:string is_internal:bool {_P0}]")
_api(3, [4], "topics:?[string] allow_auto_topic_creation:bool",
     "throttle_time_ms:int32 brokers:[node_id:int32 host:string port:int32 rack:nstring] "
     f"cluster_id:nstring controller_id:int32 topics:[error_code:int16 name:string is_internal:bool {_P0}]")
_api(3, [5], "topics:?[string] allow_auto_topic_creation:bool",
     "throttle_time_ms:int32 brokers:[node_id:int32 host:string port:int32 rack:nstring] "
     f"cluster_id:nstring controller_id:int32 topics:[error_code:int16 name:string is_internal:bool {_P5}]")

# Produce ---------------------------------------------------------------------
_PREQ = "acks:int16 timeout:int32 topics:[name:string partitions:[partition:int32 records:records]]"
_api(0, [0], _PREQ, "topics:[name:string partitions:[partition:int32 error_code:int16 base_offset:int64]]")
_api(0, [1], _PREQ,
     "topics:[name:string partitions:[partition:int32 error_code:int16 base_offset:int64]] throttle_time_ms:int32")
_api(0, [2], _PREQ,
     "topics:[name:string partitions:[partition:int32 error_code:int16 base_offset:int64 "
     "log_append_time:int64]] throttle_time_ms:int32")
_api(0, [3, 4], "transactional_id:nstring " + _PREQ,
     "topics:[name:string partitions:[partition:int32 error_code:int16 base_offset:int64 "
     "log_append_time:int64]] throttle_time_ms:int32")
_api(0, [5, 6, 7], "transactional_id:nstring " + _PREQ,
     "topics:[name:string partitions:[partition:int32 error_code:int16 base_offset:int64 "
     "log_append_time:int64 log_start_offset:int64]] throttle_time_ms:int32")

# Fetch -----------------------------------------------------------------------
_FQ_P = "partitions:[partition:int32 fetch_offset:int64 max_bytes:int32]"
_FQ_P5 = "partitions:[partition:int32 fetch_offset:int64 log_start_offset:int64 max_bytes:int32]"
_FQ_P9 = ("partitions:[partition:int32 current_leader_epoch:int32 fetch_offset:int64 "
          "log_start_offset:int64 max_bytes:int32]")
_FR_P0 = "partitions:[partition:int32 error_code:int16 high_watermark:int64 records:records]"
_FR_P4 = ("partitions:[partition:int32 error_code:int16 high_watermark:int64 last_stable_offset:int64 "
          "aborted_transactions:?[producer_id:int64 first_offset:int64] records:records]")
_FR_P5 = ("partitions:[partition:int32 error_code:int16 high_watermark:int64 last_stable_offset:int64 "
          "log_start_offset:int64 aborted_transactions:?[producer_id:int64 first_offset:int64] records:records]")
_FR_P11 = ("partitions:[partition:int32 error_code:int16 high_watermark:int64 last_stable_offset:int64 "
           "log_start_offset:int64 aborted_transactions:?[producer_id:int64 first_offset:int64] "
           "preferred_read_replica:int32 records:records]")
_api(1, [0], f"replica_id:int32 max_wait_ms:int32 min_bytes:int32 topics:[topic:string {_FQ_P}]",
     f"topics:[topic:string {_FR_P0}]")
_api(1, [1, 2], f"replica_id:int32 max_wait_ms:int32 min_bytes:int32 topics:[topic:string {_FQ_P}]",
     f"throttle_time_ms:int32 topics:[topic:string {_FR_P0}]")
_api(1, [3], f"replica_id:int32 max_wait_ms:int32 min_bytes:int32 max_bytes:int32 topics:[topic:string {_FQ_P}]",
     f"throttle_time_ms:int32 topics:[topic:string {_FR_P0}]")
_api(1, [4],
     f"replica_id:int32 max_wait_ms:int32 min_bytes:int32 max_bytes:int32 isolation_level:int8 "
     f"topics:[topic:string {_FQ_P}]",
     f"throttle_time_ms:int32 topics:[topic:string {_FR_P4}]")
_api(1, [5, 6],
     f"replica_id:int32 max_wait_ms:int32 min_bytes:int32 max_bytes:int32 isolation_level:int8 "
     f"topics:[topic:string {_FQ_P5}]",
     f"throttle_time_ms:int32 topics:[topic:string {_FR_P5}]")
_api(1, [7, 8],
     f"replica_id:int32 max_wait_ms:int32 min_bytes:int32 max_bytes:int32 isolation_level:int8 "
     f"session_id:int32 session_epoch:int32 topics:[topic:string {_FQ_P5}] "
     "forgotten_topics_data:[topic:string partitions:[int32]]",
     f"throttle_time_ms:int32 error_code:int16 session_id:int32 topics:[topic:string {_FR_P5}]")
_api(1, [9, 10],
     f"replica_id:int32 max_wait_ms:int32 min_bytes:int32 max_bytes:int32 isolation_level:int8 "
     f"session_id:int32 session_epoch:int32 topics:[topic:string {_FQ_P9}] "
     "forgotten_topics_data:[topic:string partitions:[int32]]",
     f"throttle_time_ms:int32 error_code:int16 session_id:int32 topics:[topic:string {_FR_P5}]")
_api(1, [11],
     f"replica_id:int32 max_wait_ms:int32 min_bytes:int32 max_bytes:int32 isolation_level:int8 "
     f"session_id:int32 session_epoch:int32 topics:[topic:string {_FQ_P9}] "
     "forgotten_topics_data:[topic:string partitions:[int32]] rack_id:string",
     f"throttle_time_ms:int32 error_code:int16 session_id:int32 topics:[topic:string {_FR_P11}]")

# ListOffsets -----------------------------------------------------------------
_api(2, [0],
     "replica_id:int32 topics:[topic:string partitions:[partition:int32 timestamp:int64 max_num_offsets:int32]]",
     "topics:[topic:string partitions:[partition:int32 error_code:int16 offsets:[int64]]]")
_api(2, [1],
     "replica_id:int32 topics:[topic:string partitions:[partition:int32 timestamp:int64]]",
     "topics:[topic:string partitions:[partition:int32 error_code:int16 timestamp:int64 offset:int64]]")
_api(2, [2, 3],
     "replica_id:int32 isolation_level:int8 topics:[topic:string partitions:[partition:int32 timestamp:int64]]",
     "throttle_time_ms:int32 topics:[topic:string partitions:[partition:int32 error_code:int16 "
     "timestamp:int64 offset:int64]]")

# OffsetCommit / OffsetFetch ----------------------------------------------------
_OCQ = ("group:string generation_id:int32 member_id:string retention_time:int64 "
        "topics:[name:string partitions:[partition:int32 offset:int64 metadata:nstring]]")
_api(8, [2], _OCQ, "topics:[name:string partitions:[partition:int32 error_code:int16]]")
_api(8, [3], _OCQ, "throttle_time_ms:int32 topics:[name:string partitions:[partition:int32 error_code:int16]]")
_OFR = "topics:[name:string partitions:[partition:int32 offset:int64 metadata:nstring error_code:int16]]"
_api(9, [1], "group:string topics:[name:string partitions:[int32]]", _OFR)
_api(9, [2], "group:string topics:?[name:string partitions:[int32]]", _OFR + " error_code:int16")
_api(9, [3], "group:string topics:?[name:string partitions:[int32]]",
     "throttle_time_ms:int32 " + _OFR + " error_code:int16")

# FindCoordinator ---------------------------------------------------------------
_api(10, [0], "key:string", "error_code:int16 node_id:int32 host:string port:int32")
_api(10, [1], "key:string key_type:int8",
     "throttle_time_ms:int32 error_code:int16 error_message:nstring node_id:int32 host:string port:int32")

# JoinGroup ---------------------------------------------------------------------
_JR = ("error_code:int16 generation_id:int32 protocol_name:string leader:string member_id:string "
       "members:[member_id:string metadata:bytes]")
_api(11, [0],
     "group:string session_timeout_ms:int32 member_id:string protocol_type:string "
     "protocols:[name:string metadata:bytes]", _JR)
_api(11, [1],
     "group:string session_timeout_ms:int32 rebalance_timeout_ms:int32 member_id:string "
     "protocol_type:string protocols:[name:string metadata:bytes]", _JR)
_api(11, [2, 3, 4],
     "group:string session_timeout_ms:int32 rebalance_timeout_ms:int32 member_id:string "
     "protocol_type:string protocols:[name:string metadata:bytes]", "throttle_time_ms:int32 " + _JR)
_api(11, [5],
     "group:string session_timeout_ms:int32 rebalance_timeout_ms:int32 member_id:string "
     "group_instance_id:nstring protocol_type:string protocols:[name:string metadata:bytes]",
     "throttle_time_ms:int32 error_code:int16 generation_id:int32 protocol_name:string leader:string "
     "member_id:string members:[member_id:string group_instance_id:nstring metadata:bytes]")

# Heartbeat / LeaveGroup / SyncGroup ---------------------------------------------
_api(12, [0], "group:string generation_id:int32 member_id:string", "error_code:int16")
_api(12, [1, 2], "group:string generation_id:int32 member_id:string", "throttle_time_ms:int32 error_code:int16")
_api(13, [0], "group:string member_id:string", "error_code:int16")
_api(13, [1, 2], "group:string member_id:string", "throttle_time_ms:int32 error_code:int16")
_SQ = "group:string generation_id:int32 member_id:string assignments:[member_id:string assignment:bytes]"
_api(14, [0], _SQ, "error_code:int16 assignment:bytes")
_api(14, [1, 2], _SQ, "throttle_time_ms:int32 error_code:int16 assignment:bytes")
_api(14, [3],
     "group:string generation_id:int32 member_id:string group_instance_id:nstring "
     "assignments:[member_id:string assignment:bytes]",
     "throttle_time_ms:int32 error_code:int16 assignment:bytes")

# SASL ---------------------------------------------------------------------------
_api(17, [0, 1], "mechanism:string", "error_code:int16 mechanisms:[string]")
_api(36, [0], "auth_bytes:bytes", "error_code:int16 error_message:nstring auth_bytes:bytes")
_api(36, [1], "auth_bytes:bytes",
     "error_code:int16 error_message:nstring auth_bytes:bytes session_lifetime_ms:int64")

# Transactions ---------------------------------------------------------------------
_api(22, [0], "transactional_id:nstring transaction_timeout_ms:int32",
     "throttle_time_ms:int32 error_code:int16 producer_id:int64 producer_epoch:int16")
_api(24, [0],
     "transactional_id:string producer_id:int64 producer_epoch:int16 topics:[name:string partitions:[int32]]",
     "throttle_time_ms:int32 results:[name:string results:[partition:int32 error_code:int16]]")
_api(25, [0], "transactional_id:string producer_id:int64 producer_epoch:int16 group_id:string",
     "throttle_time_ms:int32 error_code:int16")
_api(26, [0], "transactional_id:string producer_id:int64 producer_epoch:int16 committed:bool",
     "throttle_time_ms:int32 error_code:int16")
_api(28, [0],
     "transactional_id:string group_id:string producer_id:int64 producer_epoch:int16 "
     "topics:[name:string partitions:[partition:int32 offset:int64 metadata:nstring]]",
     "throttle_time_ms:int32 topics:[name:string partitions:[partition:int32 error_code:int16]]")

# Flexible-header APIs (C12 peer only) ------------------------------------------------
_api(21, [0, 1],
     "topics:[name:string partitions:[partition:int32 offset:int64]] timeout_ms:int32",
     "throttle_time_ms:int32 topics:[name:string partitions:[partition:int32 low_watermark:int64 error_code:int16]]")
_api(21, [2],
     "topics:{name:cstring partitions:{partition:int32 offset:int64 tags:tags} tags:tags} "
     "timeout_ms:int32 tags:tags",
     "throttle_time_ms:int32 topics:{name:cstring partitions:{partition:int32 low_watermark:int64 "
     "error_code:int16 tags:tags} tags:tags} tags:tags", flexible=True)
_api(46, [0],
     "timeout_ms:int32 topics:?{name:cstring partition_indexes:{int32} tags:tags} tags:tags",
     "throttle_time_ms:int32 error_code:int16 error_message:cnstring "
     "topics:{name:cstring partitions:{partition_index:int32 replicas:{int32} adding_replicas:{int32} "
     "removing_replicas:{int32} tags:tags} tags:tags} tags:tags", flexible=True)


def max_version(key):
    return max(v for (k, v) in API if k == key)


def min_version(key):
    return min(v for (k, v) in API if k == key)


def supported_keys():
    return sorted({k for (k, _) in API})


# --------------------------------------------------------------------------
# request / response framing

HEADER_V1 = parse_schema("api_key:int16 api_version:int16 correlation_id:int32 client_id:nstring")


class Request:
    def __repr__(self):
        return f"<Req {self.name} v{self.api_version} cid={self.correlation_id}>"


def parse_request(frame):
    """frame: bytes after the 4-byte size.  Strict: no trailing bytes and the
    re-encoding must reproduce the frame byte for byte."""
    r = Reader(frame)
    hdr = decode(HEADER_V1, r)
    key = (hdr["api_key"], hdr["api_version"])
    if key not in API:
        raise WireError(f"unsupported api {key}")
    rq, _, flexible = API[key]
    tags = None
    if flexible:
        tags = dec_prim("tags", r)
    body = decode(rq, r)
    if r.remaining():
        raise WireError(f"{r.remaining()} trailing bytes after request {key}")
    re = encode(HEADER_V1, hdr) + (enc_prim("tags", tags) if flexible else b"") + encode(rq, body)
    if re != bytes(frame):
        raise WireError(f"request {key} does not re-encode to the same bytes")
    req = Request()
    req.api_key, req.api_version = key
    req.correlation_id = hdr["correlation_id"]
    req.client_id = hdr["client_id"]
    req.body = body
    req.raw = bytes(frame)
    req.flexible = flexible
    req.name = NAMES.get(hdr["api_key"], str(hdr["api_key"]))
    return req


def encode_response(req, body, correlation_id=None):
    _, rs, flexible = API[(req.api_key, req.api_version)]
    cid = req.correlation_id if correlation_id is None else correlation_id
    hdr = struct.pack(">i", cid)
    if flexible:
        hdr += enc_prim("tags", {})
    payload = hdr + encode(rs, body)
    return struct.pack(">i", len(payload)) + payload
