"""Debug helper: run a replay/plan in-process against /repo and dump the event log."""
import json
import sys
import os

sys.path.insert(0, os.path.dirname(os.path.dirname(os.path.abspath(__file__))))
from simkit import patch  # noqa: E402

patch.install()
import aiokafka  # noqa: E402,F401

patch.post_import()
import props  # noqa: E402
from simkit import scenario  # noqa: E402


def main():
    doc = json.load(open(sys.argv[1]))
    plan = doc.get("plan", doc)
    captured = {}
    orig = scenario.make_world

    def mw(plan):
        w, cl = orig(plan)
        captured["w"] = w
        return w, cl

    scenario.make_world = mw
    mod = props.get(plan["prop"])
    res = mod.execute(plan)
    w = captured["w"]
    kinds = set(sys.argv[2].split(",")) if len(sys.argv) > 2 else None
    for e in w.log.events:
        if kinds is None or e[2] in kinds:
            print(e)
    print("status", res["status"], res.get("detail"))
    for v in res["violations"]:
        print("VIOL", v)
    print("faults", res["faults"], "probes", res["probes"])
    print("exc_contexts", w.loop.exc_contexts[:5])


main()
