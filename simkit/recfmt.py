"""Independent reader and writer for Kafka message formats v0, v1 and v2.

Written from the Kafka message-format definition; imports nothing from
aiokafka.  zlib supplies gzip and CRC-32, cramjam only the raw
snappy / lz4 / zstd primitives.
"""
from __future__ import annotations

import struct
import zlib

try:
    import cramjam
except ImportError:  # pragma: no cover
    cramjam = None


class RecError(Exception):
    pass


# ---------------------------------------------------------------- crc32c ---

def _mk_table():
    poly = 0x82F63B78
    tab = []
    for i in range(256):
        c = i
        for _ in range(8):
            c = (c >> 1) ^ poly if c & 1 else c >> 1
        tab.append(c)
    return tab


_T = _mk_table()


def crc32c(data):
    crc = 0xFFFFFFFF
    tab = _T
    for b in data:
        crc = tab[(crc ^ b) & 0xFF] ^ (crc >> 8)
    return crc ^ 0xFFFFFFFF


# ---------------------------------------------------------------- varints --

def enc_varint(v):
    """zig-zag signed varint (32 or 64 bit: same encoding for in-range values)."""
    u = (v << 1) ^ (v >> 63)
    u &= 0xFFFFFFFFFFFFFFFF
    out = bytearray()
    while True:
        b = u & 0x7F
        u >>= 7
        if u:
            out.append(b | 0x80)
        else:
            out.append(b)
            return bytes(out)


def dec_varint(buf, pos):
    shift = 0
    u = 0
    while True:
        if pos >= len(buf):
            raise RecError("varint past end")
        b = buf[pos]
        pos += 1
        u |= (b & 0x7F) << shift
        if not b & 0x80:
            break
        shift += 7
        if shift > 63:
            raise RecError("varint too long")
    return (u >> 1) ^ -(u & 1), pos


# ---------------------------------------------------------------- codecs ---
NONE, GZIP, SNAPPY, LZ4, ZSTD = 0, 1, 2, 3, 4
_XERIAL = bytes([0x82]) + b"SNAPPY\x00" + struct.pack(">ii", 1, 1)


def compress(codec, data):
    data = bytes(data)
    if codec == GZIP:
        c = zlib.compressobj(6, zlib.DEFLATED, 31)
        return c.compress(data) + c.flush()
    if codec == SNAPPY:
        # raw snappy (what non-Java clients emit; Java reads both forms)
        return bytes(cramjam.snappy.compress_raw(data))
    if codec == LZ4:
        return bytes(cramjam.lz4.compress(data))
    if codec == ZSTD:
        return bytes(cramjam.zstd.compress(data))
    raise RecError(f"unknown codec {codec}")


def decompress(codec, data):
    data = bytes(data)
    if codec == GZIP:
        return zlib.decompress(data, 47)
    if codec == SNAPPY:
        if len(data) > 16 and data[:16] == _XERIAL:
            out = bytearray()
            pos = 16
            while pos < len(data):
                (n,) = struct.unpack_from(">i", data, pos)
                pos += 4
                out += bytes(cramjam.snappy.decompress_raw(data[pos:pos + n]))
                pos += n
            return bytes(out)
        return bytes(cramjam.snappy.decompress_raw(data))
    if codec == LZ4:
        return bytes(cramjam.lz4.decompress(data))
    if codec == ZSTD:
        return bytes(cramjam.zstd.decompress(data))
    raise RecError(f"unknown codec {codec}")


# ---------------------------------------------------------------- v2 --------
V2_HEADER = struct.Struct(">qiibIhiqqqhii")  # 61 bytes
assert V2_HEADER.size == 61


class Rec:
    __slots__ = ("offset", "timestamp", "key", "value", "headers")

    def __init__(self, offset, timestamp, key, value, headers=()):
        self.offset = offset
        self.timestamp = timestamp
        self.key = key
        self.value = value
        self.headers = list(headers)

    def astuple(self):
        return (self.offset, self.timestamp, self.key, self.value,
                [(k, v) for k, v in self.headers])

    def __repr__(self):
        return f"Rec(o={self.offset}, ts={self.timestamp}, k={self.key!r}, v={self.value!r})"


class Batch:
    """A decoded batch (any magic).  For v0/v1 a 'batch' is one top-level
    message (possibly a compressed wrapper)."""

    __slots__ = (
        "magic", "base_offset", "last_offset", "codec", "ts_type", "transactional",
        "control", "first_ts", "max_ts", "pid", "epoch", "base_seq", "records",
        "crc_ok", "raw", "count", "leader_epoch",
    )

    def __repr__(self):
        return (f"<Batch m{self.magic} {self.base_offset}..{self.last_offset} n={len(self.records)}"
                f" pid={self.pid} ep={self.epoch} seq={self.base_seq} txn={self.transactional}"
                f" ctl={self.control}>")


def _enc_record_v2(offset_delta, ts_delta, key, value, headers):
    body = bytearray(b"\x00")
    body += enc_varint(ts_delta)
    body += enc_varint(offset_delta)
    if key is None:
        body += enc_varint(-1)
    else:
        body += enc_varint(len(key)) + key
    if value is None:
        body += enc_varint(-1)
    else:
        body += enc_varint(len(value)) + value
    body += enc_varint(len(headers))
    for hk, hv in headers:
        hkb = hk.encode("utf-8") if isinstance(hk, str) else hk
        body += enc_varint(len(hkb)) + hkb
        if hv is None:
            body += enc_varint(-1)
        else:
            body += enc_varint(len(hv)) + hv
    return enc_varint(len(body)) + bytes(body)


def encode_v2(base_offset, records, *, codec=NONE, ts_type=0, transactional=False,
              control=False, pid=-1, epoch=-1, base_seq=-1, leader_epoch=0,
              last_offset_delta=None, first_ts=None, max_ts=None, count=None):
    """records: list of (offset_delta, timestamp, key, value, headers)."""
    if records:
        f_ts = records[0][1] if first_ts is None else first_ts
        m_ts = max(r[1] for r in records) if max_ts is None else max_ts
        lod = records[-1][0] if last_offset_delta is None else last_offset_delta
    else:
        f_ts = -1 if first_ts is None else first_ts
        m_ts = -1 if max_ts is None else max_ts
        lod = 0 if last_offset_delta is None else last_offset_delta
    payload = b"".join(
        _enc_record_v2(od, ts - f_ts, k, v, h or ()) for (od, ts, k, v, h) in records
    )
    if codec:
        payload = compress(codec, payload)
    attrs = codec | (8 if ts_type else 0) | (16 if transactional else 0) | (32 if control else 0)
    n = len(records) if count is None else count
    after_crc = struct.pack(">hiqqqhii", attrs, lod, f_ts, m_ts, pid, epoch, base_seq, n) + payload
    crc = crc32c(after_crc)
    length = 4 + 1 + 4 + len(after_crc)
    return struct.pack(">qiibI", base_offset, length, leader_epoch, 2, crc) + after_crc


def control_batch(offset, pid, epoch, commit, coordinator_epoch=0, timestamp=0):
    key = struct.pack(">hh", 0, 1 if commit else 0)
    value = struct.pack(">hi", 0, coordinator_epoch)
    return encode_v2(offset, [(0, timestamp, key, value, ())], transactional=True, control=True,
                     pid=pid, epoch=epoch, base_seq=-1)


def _decode_v2(buf, pos, length, verify_crc=True):
    end = pos + 12 + length
    (base_offset, _len, leader_epoch, magic, crc, attrs, lod, f_ts, m_ts, pid, epoch, base_seq,
     count) = V2_HEADER.unpack_from(buf, pos)
    b = Batch()
    b.magic = 2
    b.base_offset = base_offset
    b.last_offset = base_offset + lod
    b.codec = attrs & 7
    b.ts_type = 1 if attrs & 8 else 0
    b.transactional = bool(attrs & 16)
    b.control = bool(attrs & 32)
    b.first_ts, b.max_ts = f_ts, m_ts
    b.pid, b.epoch, b.base_seq = pid, epoch, base_seq
    b.count = count
    b.leader_epoch = leader_epoch
    b.raw = bytes(buf[pos:end])
    b.crc_ok = crc32c(buf[pos + 21:end]) == crc
    if verify_crc and not b.crc_ok:
        raise RecError("v2 crc mismatch")
    payload = bytes(buf[pos + 61:end])
    if b.codec:
        payload = decompress(b.codec, payload)
    recs = []
    p = 0
    for _ in range(count):
        ln, p = dec_varint(payload, p)
        rend = p + ln
        if ln < 0 or rend > len(payload):
            raise RecError("record length out of range")
        p += 1  # attributes
        tsd, p = dec_varint(payload, p)
        od, p = dec_varint(payload, p)
        kl, p = dec_varint(payload, p)
        key = None
        if kl >= 0:
            key = payload[p:p + kl]
            p += kl
        vl, p = dec_varint(payload, p)
        val = None
        if vl >= 0:
            val = payload[p:p + vl]
            p += vl
        hc, p = dec_varint(payload, p)
        hdrs = []
        for _ in range(hc):
            hkl, p = dec_varint(payload, p)
            hk = payload[p:p + hkl].decode("utf-8")
            p += hkl
            hvl, p = dec_varint(payload, p)
            hv = None
            if hvl >= 0:
                hv = payload[p:p + hvl]
                p += hvl
            hdrs.append((hk, hv))
        if p != rend:
            raise RecError(f"record size mismatch {p} != {rend}")
        ts = m_ts if b.ts_type else f_ts + tsd
        recs.append(Rec(base_offset + od, ts, key, val, hdrs))
    if p != len(payload):
        raise RecError("trailing bytes after records")
    b.records = recs
    return b


# ---------------------------------------------------------------- v0 / v1 ----

def _enc_msg_legacy(magic, offset, attrs, timestamp, key, value):
    body = struct.pack(">bb", magic, attrs)
    if magic == 1:
        body += struct.pack(">q", timestamp)
    body += struct.pack(">i", -1) if key is None else struct.pack(">i", len(key)) + key
    body += struct.pack(">i", -1) if value is None else struct.pack(">i", len(value)) + value
    crc = zlib.crc32(body) & 0xFFFFFFFF
    msg = struct.pack(">I", crc) + body
    return struct.pack(">qi", offset, len(msg)) + msg


def encode_legacy(magic, records, *, codec=NONE, ts_type=0, wrapper_ts=None):
    """records: list of (absolute_offset, timestamp, key, value).  Without
    codec: a plain message set.  With codec: one wrapper message."""
    if not codec:
        return b"".join(_enc_msg_legacy(magic, o, 0, ts, k, v) for (o, ts, k, v) in records)
    if magic == 1:
        # inner offsets are relative to the first record; the wrapper carries
        # the absolute offset of the last one
        base = records[0][0]
        inner = b"".join(
            _enc_msg_legacy(1, o - base, 0, ts, k, v) for (o, ts, k, v) in records
        )
    else:
        inner = b"".join(_enc_msg_legacy(0, o, 0, ts, k, v) for (o, ts, k, v) in records)
    attrs = codec | (8 if (ts_type and magic == 1) else 0)
    wts = wrapper_ts if wrapper_ts is not None else max(r[1] for r in records)
    return _enc_msg_legacy(magic, records[-1][0], attrs, wts, None, compress(codec, inner))


def _dec_msg_legacy(buf, pos, verify_crc=True):
    offset, size = struct.unpack_from(">qi", buf, pos)
    start = pos + 12
    end = start + size
    crc, magic, attrs = struct.unpack_from(">IBb", buf, start)
    p = start + 6
    ts = -1
    if magic == 1:
        (ts,) = struct.unpack_from(">q", buf, p)
        p += 8
    (kl,) = struct.unpack_from(">i", buf, p)
    p += 4
    key = None
    if kl >= 0:
        key = bytes(buf[p:p + kl])
        p += kl
    (vl,) = struct.unpack_from(">i", buf, p)
    p += 4
    val = None
    if vl >= 0:
        val = bytes(buf[p:p + vl])
        p += vl
    if p != end:
        raise RecError("legacy message size mismatch")
    ok = (zlib.crc32(bytes(buf[start + 4:end])) & 0xFFFFFFFF) == crc
    if verify_crc and not ok:
        raise RecError("legacy crc mismatch")
    return offset, magic, attrs, ts, key, val, ok, end


def _decode_legacy(buf, pos, verify_crc=True):
    offset, magic, attrs, ts, key, val, ok, end = _dec_msg_legacy(buf, pos, verify_crc)
    b = Batch()
    b.magic = magic
    b.codec = attrs & 7
    b.ts_type = 1 if attrs & 8 else 0
    b.transactional = False
    b.control = False
    b.pid, b.epoch, b.base_seq = -1, -1, -1
    b.first_ts = b.max_ts = ts
    b.crc_ok = ok
    b.raw = bytes(buf[pos:end])
    b.leader_epoch = -1
    if not b.codec:
        b.records = [Rec(offset, ts, key, val)]
        b.base_offset = b.last_offset = offset
        b.count = 1
        return b
    inner = decompress(b.codec, val)
    recs = []
    p = 0
    while p < len(inner):
        io_, im, ia, its, ik, iv, iok, p = _dec_msg_legacy(inner, p, verify_crc)
        recs.append([io_, its, ik, iv])
    if magic == 1:
        # relative offsets: last inner = wrapper offset
        delta = offset - recs[-1][0]
        for r in recs:
            r[0] += delta
            if b.ts_type:
                r[1] = ts
    b.records = [Rec(*r) for r in recs]
    b.base_offset = b.records[0].offset
    b.last_offset = offset
    b.count = len(recs)
    return b


# ---------------------------------------------------------------- reader -----

def decode_batches(buf, verify_crc=True, allow_partial=True):
    """Split a records blob into batches (mixed magic allowed)."""
    buf = bytes(buf)
    out = []
    pos = 0
    n = len(buf)
    while pos < n:
        if n - pos < 17:
            if allow_partial:
                break
            raise RecError("truncated batch header")
        (length,) = struct.unpack_from(">i", buf, pos + 8)
        if pos + 12 + length > n or length < 5:
            if allow_partial and length >= 5:
                break
            raise RecError("truncated batch")
        magic = buf[pos + 16]
        if magic == 2:
            if length < 49:
                raise RecError("v2 batch shorter than header")
            out.append(_decode_v2(buf, pos, length, verify_crc))
        elif magic in (0, 1):
            out.append(_decode_legacy(buf, pos, verify_crc))
        else:
            raise RecError(f"bad magic {magic}")
        pos += 12 + length
    return out


def batch_spans(buf):
    """(start, end, magic) for each complete top-level batch in buf."""
    out = []
    pos = 0
    n = len(buf)
    while n - pos >= 17:
        (length,) = struct.unpack_from(">i", buf, pos + 8)
        if length < 5 or pos + 12 + length > n:
            break
        out.append((pos, pos + 12 + length, buf[pos + 16]))
        pos += 12 + length
    return out
