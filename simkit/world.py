"""World = one simulated execution: loop + rng + event log + network +
cluster model + fault engine + violation sink."""
from __future__ import annotations

import collections
import random

from . import loop as L
from .net import EventLog, Rng, SimNet


class Violation(Exception):
    def __init__(self, prop, clause, data):
        super().__init__(f"{prop}/{clause}: {data}")
        self.prop, self.clause, self.data = prop, clause, data


class World:
    def __init__(self, seed, *, iter_cost=0.0, max_iters=400_000, max_same_instant=20000):
        self.seed = seed
        self.rng = Rng(seed)
        self.loop = L.SimLoop(L.CLOCK, iter_cost=iter_cost, max_iters=max_iters,
                              max_same_instant=max_same_instant)
        self.log = EventLog()
        self.net = SimNet(self)
        self.loop.connector = self.net.connect
        self.violations = []  # (prop, clause, data)
        self.fault_counts = collections.Counter()
        self.probes = collections.Counter()
        self.subs = collections.defaultdict(list)
        self.t0 = self.loop.time()
        self.cluster = None
        self.faults = None
        self.last_fault_effect = self.t0  # virtual time the last fault effect ended
        self.fault_windows = []  # (kind, t_start, t_end): when each fired fault was in effect
        random.seed(seed)

    # ------------------------------------------------------------------ misc
    def now(self):
        return self.loop.time()

    def violation(self, prop, clause, data):
        self.log.add(self.loop.time(), "VIOLATION", prop, clause)
        self.violations.append((prop, clause, data))

    def count_fault(self, kind, effect_until=None, extend=True):
        self.fault_counts[kind] += 1
        if not extend:
            # a consequence of a fault whose window is registered already (a connection
            # refused by a broker that is down): counted, but not a new fault
            return
        t = self.loop.time() if effect_until is None else effect_until
        self.fault_windows.append((kind, self.loop.time(), t))
        if t > self.last_fault_effect:
            self.last_fault_effect = t

    def probe(self, name, n=1):
        self.probes[name] += n

    def subscribe(self, kind, fn):
        self.subs[kind].append(fn)

    def emit(self, kind, *a):
        for fn in self.subs.get(kind, ()):
            fn(*a)

    # hooks called by the network layer ------------------------------------
    def on_client_write(self, conn, req):
        self.emit("client_write", conn, req)

    def on_client_response(self, conn, tag):
        self.emit("client_response", conn, tag)

    def on_client_conn_end(self, conn, how):
        self.emit("conn_end", conn, how)

    # scheduling helper ------------------------------------------------------
    def at(self, t_rel, fn, *args):
        return self.loop.call_at(self.t0 + t_rel, fn, *args, context=L.sim_context())

    def later(self, delay, fn, *args):
        return self.loop.call_at(self.loop.time() + delay, fn, *args, context=L.sim_context())
