"""RFC 5802 SCRAM server model (written from the RFC), with optional tampering
of the messages in transit and an impostor mode."""
from __future__ import annotations

import base64
import hashlib
import hmac
import re

HASHES = {"SCRAM-SHA-256": "sha256", "SCRAM-SHA-512": "sha512"}

# RFC 5802 section 7 (the subset a client without channel binding / authzid emits)
_VALUE_SAFE = r"[\x01-\x2b\x2d-\x3c\x3e-\x7f\u0080-\U0010ffff]"
_SASLNAME = rf"(?:{_VALUE_SAFE}|=2C|=3D)+"
_PRINTABLE = r"[\x21-\x2b\x2d-\x7e]+"
CLIENT_FIRST = re.compile(rf"^n,,n=(?P<user>{_SASLNAME}),r=(?P<nonce>{_PRINTABLE})$")
CLIENT_FINAL = re.compile(
    rf"^c=biws,r=(?P<nonce>{_PRINTABLE}),p=(?P<proof>[A-Za-z0-9+/]+={{0,2}})$")


def _h(name, data):
    return hashlib.new(name, data).digest()


def _hmac(name, key, msg):
    return hmac.new(key, msg, name).digest()


class ScramServer:
    """Factory attached to a broker (`broker.sasl`)."""

    def __init__(self, world, users, *, salt, iterations, server_nonce, tamper=None,
                 impostor=False, mechanisms=("SCRAM-SHA-256", "SCRAM-SHA-512"), tamper_arg=None):
        self.world = world
        self.users = users  # username -> password the server believes
        self.salt = salt
        self.iterations = iterations
        self.server_nonce = server_nonce
        self.tamper = tamper
        self.tamper_arg = tamper_arg  # None = the fixed variants of format-1 plans
        self.impostor = impostor
        self.mechanisms = tuple(mechanisms)
        self.sessions = []
        self.replay = None  # [server-first bytes, server-final bytes] recorded from an earlier exchange

    def new_session(self, mech, conn):
        s = ScramSession(self, mech)
        self.sessions.append(s)
        return s


class ScramSession:
    def __init__(self, server, mech):
        self.server = server
        self.hash = HASHES[mech]
        self.state = 0
        self.violations = []
        self.authenticated = False  # server side verdict
        self.client_first_bare = None
        self.server_first = None
        self.nonce = None
        self.user = None
        self.completed_exchange = False
        self.sent = []

    def step(self, payload):
        """-> (ok, bytes_to_send, done)"""
        if self.server.replay is not None:
            # a peer that knows nothing but a recorded exchange: it answers every client
            # message with the bytes an honest server once sent to (it hopes) the same client
            msg = self.server.replay[min(self.state, 1)]
            self.state += 1
            self.completed_exchange = self.state >= 2
            return True, msg, self.state >= 2
        out = self._step(payload)
        self.sent.append(out[1])
        return out

    def _step(self, payload):
        srv = self.server
        w = srv.world
        try:
            text = payload.decode("utf-8")
        except UnicodeDecodeError:
            w.violation("C18", "client_message_not_utf8", {"state": self.state})
            return False, b"", True
        if self.state == 0:
            m = CLIENT_FIRST.match(text)
            if not m:
                w.violation("C18", "client_first_not_rfc5802", {"message": text})
                return False, b"", True
            self.user = m.group("user").replace("=2C", ",").replace("=3D", "=")
            if "=" in re.sub(r"=2C|=3D", "", m.group("user")):
                w.violation("C18", "client_first_bad_escape", {"message": text})
                return False, b"", True
            cnonce = m.group("nonce")
            self.client_first_bare = text[3:]
            self.nonce = cnonce + srv.server_nonce
            salt = srv.salt
            it = srv.iterations
            nonce_out = self.nonce
            salt_out = base64.b64encode(salt).decode()
            it_out = it
            # what an honest server would have sent (used for its own computations)
            self.server_first = f"r={self.nonce},s={salt_out},i={it}"
            t = srv.tamper
            if t == "nonce_prefix":
                nonce_out = ("X" if self.nonce[0] != "X" else "Y") + self.nonce[1:]
            elif t == "nonce_replaced":
                nonce_out = srv.server_nonce + "zz"
            elif t == "salt":
                b = bytearray(salt)
                b[0] ^= 0x01
                salt_out = base64.b64encode(bytes(b)).decode()
            elif t == "iterations":
                it_out = it + 1
            out = f"r={nonce_out},s={salt_out},i={it_out}"
            self.state = 1
            return True, out.encode("utf-8"), False
        if self.state == 1:
            m = CLIENT_FINAL.match(text)
            if not m:
                w.violation("C18", "client_final_not_rfc5802", {"message": text})
                return False, b"", True
            self.completed_exchange = True
            if srv.impostor:
                # does not know the password: accepts anything, fabricates a signature
                self.state = 2
                fake = _h(self.hash, b"impostor" + self.nonce.encode())
                arg = srv.tamper_arg
                if arg is not None:
                    # a fabricated signature may have any length
                    how = arg % 4
                    if how == 1:
                        fake = b""
                    elif how == 2:
                        fake = fake[:(arg // 4) % len(fake)]
                    elif how == 3:
                        fake = fake + fake[:1 + (arg // 4) % 4]
                return True, b"v=" + base64.b64encode(fake), True
            if m.group("nonce") != self.nonce:
                self.state = 2
                return False, b"e=other-error", True
            password = srv.users.get(self.user)
            if password is None:
                self.state = 2
                return False, b"e=unknown-user", True
            salted = hashlib.pbkdf2_hmac(self.hash, password.encode("utf-8"), srv.salt,
                                         srv.iterations)
            client_key = _hmac(self.hash, salted, b"Client Key")
            stored_key = _h(self.hash, client_key)
            without_proof = text[:text.rindex(",p=")]
            auth_message = (self.client_first_bare + "," + self.server_first + "," +
                            without_proof).encode("utf-8")
            client_sig = _hmac(self.hash, stored_key, auth_message)
            try:
                proof = base64.b64decode(m.group("proof"), validate=True)
            except Exception:  # noqa: BLE001
                w.violation("C18", "client_proof_not_base64", {"message": text})
                return False, b"", True
            if len(proof) != len(client_sig):
                self.state = 2
                return False, b"e=invalid-proof", True
            recovered = bytes(a ^ b for a, b in zip(proof, client_sig))
            if _h(self.hash, recovered) != stored_key:
                self.state = 2
                w.probe("scram_invalid_proof")
                return False, b"e=invalid-proof", True
            self.authenticated = True
            server_key = _hmac(self.hash, salted, b"Server Key")
            server_sig = _hmac(self.hash, server_key, auth_message)
            t = srv.tamper
            self.state = 2
            arg = srv.tamper_arg
            if t == "signature":
                b = bytearray(server_sig)
                if arg is None:
                    b[len(b) // 2] ^= 0x10
                else:
                    bit = arg % (len(b) * 8)
                    b[bit // 8] ^= 1 << (bit % 8)
                return True, b"v=" + base64.b64encode(bytes(b)), True
            if t == "sig_truncate":
                # a strict prefix of the right signature (possibly empty)
                keep = (arg or 0) % len(server_sig)
                return True, b"v=" + base64.b64encode(server_sig[:keep]), True
            if t == "sig_extend":
                extra = bytes([(arg or 0) % 256]) * (1 + (arg or 0) % 4)
                return True, b"v=" + base64.b64encode(server_sig + extra), True
            if t == "error_instead_of_verifier":
                return True, b"e=other-error", True
            return True, b"v=" + base64.b64encode(server_sig), True
        return False, b"", True
