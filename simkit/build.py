"""Rebuild aiokafka from /repo's current working tree into a scratch overlay.

The compiled record modules are git-ignored in /repo, so every check
cythonizes and compiles the four .pyx files from the working tree (normal
build for the simulations, optional ASan build for C10)."""
from __future__ import annotations

import atexit
import concurrent.futures
import os
import shutil
import signal
import subprocess
import sys
import sysconfig
import tempfile

REPO = os.environ.get("VERIF_REPO", "/repo")
PY = "/venv/bin/python"
CYTHON = "/venv/bin/cython"
ASAN_RT = "/usr/lib/llvm-14/lib/clang/14.0.6/lib/linux/libclang_rt.asan-x86_64.so"

_EXT = [
    ("legacy_records", [], ["-lz"]),
    ("default_records", ["crc32c.c"], ["-lz"]),
    ("memory_records", [], ["-lz"]),
    ("cutil", ["crc32c.c"], ["-lz"]),
]

_scratch_dirs = []


def _cleanup():
    for d in _scratch_dirs:
        shutil.rmtree(d, ignore_errors=True)


atexit.register(_cleanup)


def _on_signal(signum, frame):
    _cleanup()
    sys.exit(2)


def install_signal_cleanup():
    for s in (signal.SIGTERM, signal.SIGINT, signal.SIGHUP):
        try:
            signal.signal(s, _on_signal)
        except (ValueError, OSError):
            pass


class BuildError(Exception):
    pass


def _run(cmd, cwd):
    p = subprocess.run(cmd, cwd=cwd, capture_output=True, text=True, timeout=600)
    if p.returncode != 0:
        raise BuildError(f"{' '.join(cmd)}\n{p.stdout[-2000:]}\n{p.stderr[-4000:]}")


def build(asan=False, compiled=True):
    """Returns the overlay directory (to be put first on PYTHONPATH)."""
    base = tempfile.mkdtemp(prefix="aiokverif-")
    _scratch_dirs.append(base)
    src = os.path.join(REPO, "aiokafka")
    dst = os.path.join(base, "aiokafka")

    def ignore(d, names):
        out = {n for n in names if n == "__pycache__" or n.endswith((".so", ".pyc", ".o"))}
        if d.endswith("_crecords"):
            out |= {n for n in names if n.endswith(".c") and n != "crc32c.c"}
        return out

    shutil.copytree(src, dst, ignore=ignore)
    if not compiled:
        return base
    crec = os.path.join(dst, "record", "_crecords")
    inc = sysconfig.get_paths()["include"]
    if not os.path.exists(os.path.join(inc, "Python.h")):
        inc = "/root/.pyenv/versions/3.12.1/include/python3.12"
    suffix = ".cpython-312-x86_64-linux-gnu.so"

    def one(item):
        name, extra, libs = item
        _run([CYTHON, "-3", f"{name}.pyx"], crec)
        if asan:
            cc = ["clang", "-O1", "-g", "-fno-omit-frame-pointer", "-fsanitize=address",
                  "-shared-libasan"]
        else:
            cc = ["gcc", "-O1"]
        _run(cc + ["-fPIC", "-shared", "-w", f"-I{inc}", "-I.", f"{name}.c"] + extra
             + ["-o", name + suffix] + libs, crec)
        return name

    with concurrent.futures.ThreadPoolExecutor(4) as ex:
        list(ex.map(one, _EXT))
    return base


def worker_env(overlay, hashseed=0, impl="c", asan=False):
    env = dict(os.environ)
    verif = os.path.dirname(os.path.dirname(os.path.abspath(__file__)))
    env["PYTHONPATH"] = overlay + os.pathsep + verif
    env["PYTHONHASHSEED"] = str(hashseed)
    env["PYTHONDONTWRITEBYTECODE"] = "1"
    env["AIOKAFKA_VERIF"] = "1"
    env.pop("AIOKAFKA_NO_EXTENSIONS", None)
    if impl == "py":
        env["AIOKAFKA_NO_EXTENSIONS"] = "1"
    if asan:
        env["LD_PRELOAD"] = ASAN_RT
        env["ASAN_OPTIONS"] = "detect_leaks=0:abort_on_error=1:halt_on_error=1"
        env["PYTHONMALLOC"] = "malloc"
    return env
