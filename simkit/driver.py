"""Check driver: build overlay, fan runs out to worker processes, confirm and
minimise violations, write replay files and evidence, apply known findings.

Exit codes: 0 held / 1 violation not listed as known finding / 2 harness error.
"""
from __future__ import annotations

import copy
import hashlib
import json
import os
import queue
import subprocess
import sys
import threading
import time

VERIF = os.path.dirname(os.path.dirname(os.path.abspath(__file__)))
sys.path.insert(0, VERIF)

from simkit import build  # noqa: E402

PY = "/venv/bin/python"
NWORKERS = int(os.environ.get("VERIF_WORKERS", "16"))
COMBOS = [("c", 0), ("c", 1), ("c", 2), ("py", 3), ("c", 3), ("c", 0), ("py", 1), ("c", 2)]


def combo_for(index):
    """Implementation and PYTHONHASHSEED are part of a run's identity."""
    return COMBOS[index % len(COMBOS)]


class Worker:
    def __init__(self, overlay, impl, hashseed, wid, asan=False):
        env = build.worker_env(overlay, hashseed, impl, asan=asan)
        env["VERIF_OVERLAY"] = overlay
        self.impl, self.hashseed, self.wid = impl, hashseed, wid
        self.proc = subprocess.Popen(
            [PY, os.path.join(VERIF, "simkit", "worker.py")], env=env, cwd=VERIF,
            stdin=subprocess.PIPE, stdout=subprocess.PIPE, stderr=subprocess.PIPE, text=True,
            bufsize=1)
        self.q = queue.Queue()
        self.stderr_tail = []
        threading.Thread(target=self._read, daemon=True).start()
        threading.Thread(target=self._read_err, daemon=True).start()

    def _read(self):
        for line in self.proc.stdout:
            line = line.strip()
            if line.startswith("{"):
                try:
                    self.q.put(json.loads(line))
                except ValueError:
                    self.q.put({"garbage": line[:200]})
        self.q.put({"eof": True})

    def _read_err(self):
        for line in self.proc.stderr:
            self.stderr_tail.append(line)
            del self.stderr_tail[:-60]

    def send(self, job):
        try:
            self.proc.stdin.write(json.dumps(job) + "\n")
            self.proc.stdin.flush()
        except (BrokenPipeError, OSError):
            pass

    def run_plan(self, plan, timeout=180):
        self.send({"cmd": "plan", "plan": plan, "timeout": timeout})
        try:
            res = self.q.get(timeout=timeout + 30)
        except queue.Empty:
            return {"status": "worker_timeout", "violations": []}
        if res.get("eof"):
            return {"status": "worker_died", "violations": [], "stderr": "".join(self.stderr_tail)}
        return res

    def close(self):
        try:
            self.send({"cmd": "exit"})
            self.proc.stdin.close()
        except Exception:  # noqa: BLE001
            pass
        try:
            self.proc.wait(timeout=5)
        except Exception:  # noqa: BLE001
            self.proc.kill()


def load_known():
    path = os.path.join(VERIF, "known_findings.json")
    if not os.path.exists(path):
        return {"findings": [], "fixed": []}
    with open(path) as f:
        return json.load(f)


def _match_where(where, data):
    for k, cond in (where or {}).items():
        v = data.get(k) if isinstance(data, dict) else None
        if isinstance(cond, dict):
            for op, ref in cond.items():
                if v is None:
                    return False
                if op == "lt" and not v < ref:
                    return False
                if op == "le" and not v <= ref:
                    return False
                if op == "gt" and not v > ref:
                    return False
                if op == "ge" and not v >= ref:
                    return False
                if op == "ne" and not v != ref:
                    return False
                if op == "contains" and ref not in str(v):
                    return False
                if op == "in" and v not in ref:
                    return False
        elif v != cond:
            return False
    return True


def known_match(known, prop, clause, data):
    for f in known.get("findings", []):
        if f["property"] == prop and f["clause"] == clause and _match_where(f.get("where"), data):
            return f
    return None


# ------------------------------------------------------------------------------------
# minimisation


def _get(plan, path):
    cur = plan
    for p in path:
        cur = cur[p]
    return cur


def _list_paths(obj, keys, prefix=()):
    out = []
    if isinstance(obj, dict):
        for k, v in obj.items():
            if isinstance(v, list) and k in keys:
                out.append(prefix + (k,))
            out.extend(_list_paths(v, keys, prefix + (k,)))
    elif isinstance(obj, list):
        for i, v in enumerate(obj):
            out.extend(_list_paths(v, keys, prefix + (i,)))
    return out


class Minimiser:
    def __init__(self, worker, prop, clause, budget=250):
        self.worker = worker
        self.prop, self.clause = prop, clause
        self.budget = budget
        self.runs = 0

    def fails(self, plan):
        if self.runs >= self.budget:
            return None
        self.runs += 1
        res = self.worker.run_plan(plan)
        if any(v[0] == self.prop and v[1] == self.clause for v in res.get("violations", [])):
            return res
        return None

    def ddmin_list(self, plan, path, min_len=0):
        items = _get(plan, path)
        n = 2
        while len(items) > min_len and self.runs < self.budget:
            chunk = max(1, len(items) // n)
            reduced = False
            for start in range(0, len(items), chunk):
                cand_items = items[:start] + items[start + chunk:]
                if len(cand_items) < min_len:
                    continue
                cand = copy.deepcopy(plan)
                parent = _get(cand, path[:-1])
                parent[path[-1]] = copy.deepcopy(cand_items)
                if self.fails(cand) is not None:
                    plan = cand
                    items = cand_items
                    n = max(n - 1, 2)
                    reduced = True
                    break
            if not reduced:
                if chunk == 1:
                    break
                n = min(len(items), n * 2)
        return plan

    def minimise(self, plan, mod):
        keys = getattr(mod, "SHRINK_LISTS", ("faults", "tasks", "ops", "recs"))
        mins = getattr(mod, "SHRINK_MIN", {})
        for rounds in range(2):
            before = json.dumps(plan, sort_keys=True)
            for key in keys:
                # paths are recomputed after each reduction (indices shift)
                done = set()
                while True:
                    paths = [p for p in _list_paths(plan, {key}) if p not in done]
                    if not paths or self.runs >= self.budget:
                        break
                    p = paths[0]
                    done.add(p)
                    plan = self.ddmin_list(plan, p, mins.get(key, 0))
            simplify = getattr(mod, "simplify", None)
            if simplify is not None:
                for cand in simplify(copy.deepcopy(plan)):
                    if self.runs >= self.budget:
                        break
                    if self.fails(cand) is not None:
                        plan = cand
            if json.dumps(plan, sort_keys=True) == before:
                break
        return plan


# ------------------------------------------------------------------------------------
# main check


def tier_budget(tier, mod):
    env = os.environ.get("VERIF_BUDGET_S")
    if env:
        return float(env)
    b = getattr(mod, "BUDGET", {"quick": 60.0, "thorough": 900.0})
    return b[tier]


def run_check(prop, tier, seed):
    import props
    t_start = time.perf_counter()
    build.install_signal_cleanup()
    mod = props.get(prop)
    if hasattr(mod, "run_check"):
        return mod.run_check(tier, seed)
    try:
        overlay = build.build()
    except build.BuildError as exc:
        print(f"HARNESS-ERROR build failed: {exc}")
        return 2
    nruns = mod.RUNS[tier]
    budget = tier_budget(tier, mod)
    nworkers = min(NWORKERS, os.cpu_count() or 1)
    # group indices by (impl, hashseed) combo; two workers per combo
    workers = []
    ncombo = len(COMBOS)
    per = max(1, nworkers // ncombo)
    assign = {}
    for ci, (impl, hs) in enumerate(COMBOS):
        idxs = list(range(ci, nruns, ncombo))
        for k in range(per):
            w = Worker(overlay, impl, hs, len(workers))
            workers.append(w)
            assign[w.wid] = idxs[k::per]
    deadline = t_start + budget
    CH = 8 if tier == "quick" else 32
    pos = {w.wid: 0 for w in workers}
    busy = {}
    results = []
    harness = []

    def feed(w):
        idxs = assign[w.wid]
        p = pos[w.wid]
        if p >= len(idxs) or time.perf_counter() > deadline:
            return False
        chunk = idxs[p:p + CH]
        pos[w.wid] = p + len(chunk)
        w.send({"cmd": "batch", "prop": prop, "seed": seed, "tier": tier, "indices": chunk,
                "timeout": getattr(mod, "RUN_TIMEOUT", 120)})
        busy[w.wid] = len(chunk)
        return True

    for w in workers:
        feed(w)
    live = set(busy)
    hard_deadline = deadline + getattr(mod, "RUN_TIMEOUT", 120) + 30
    while live:
        progressed = False
        for w in workers:
            if w.wid not in live:
                continue
            try:
                msg = w.q.get(timeout=0.02)
            except queue.Empty:
                continue
            progressed = True
            if msg.get("eof"):
                live.discard(w.wid)
                if busy.get(w.wid):
                    harness.append({"worker": w.wid, "died": True,
                                    "stderr": "".join(w.stderr_tail)[-3000:]})
                continue
            if msg.get("fatal"):
                harness.append(msg)
                live.discard(w.wid)
                continue
            if msg.get("batch_done"):
                busy[w.wid] = 0
                if not feed(w):
                    live.discard(w.wid)
                continue
            if "i" in msg:
                msg["impl"], msg["hashseed"] = w.impl, w.hashseed
                results.append(msg)
        if not progressed and time.perf_counter() > hard_deadline:
            harness.append({"timeout": "workers did not finish", "live": sorted(live)})
            break
    # ---- classify ---------------------------------------------------------------
    known = load_known()
    viol = []
    for r in results:
        if r.get("status") not in ("ok", "spin"):
            harness.append({"i": r["i"], "status": r.get("status"), "detail": r.get("detail")})
        for v in r.get("violations", []):
            if v[0] == prop:
                viol.append((r, v))
            elif v[0] == "HARNESS":
                harness.append({"i": r["i"], "violation": v})
    exit_code = 0
    reported = []
    known_lines = {}
    by_clause = {}
    for r, v in viol:
        by_clause.setdefault(v[1], []).append((r, v))
    replay_dir = os.path.join(VERIF, "replays")
    os.makedirs(replay_dir, exist_ok=True)
    for clause, items in sorted(by_clause.items()):
        unknown = []
        for r, v in items:
            f = known_match(known, prop, clause, v[2])
            if f is not None:
                known_lines.setdefault(f["id"], [f, 0])[1] += 1
            else:
                unknown.append((r, v))
        if not unknown:
            continue
        exit_code = max(exit_code, 1)
        unknown.sort(key=lambda rv: rv[0]["i"])
        r, v = unknown[0]
        path, note = confirm_and_minimise(overlay, mod, prop, clause, r, v, replay_dir, tier)
        if path is None:
            harness.append({"i": r["i"], "nondeterministic": note})
            continue
        if isinstance(v[2], dict):
            v[2].pop("_replan", None)
        reported.append({"clause": clause, "count": len(unknown), "replay": path, "first_index": r["i"],
                         "data": v[2]})
        print(f"VIOLATION property={prop} replay={path}")
        print(f"  clause={clause} runs_violating={len(unknown)} first_index={r['i']} "
              f"data={json.dumps(v[2], default=str)[:600]}")
    for fid, (f, n) in sorted(known_lines.items()):
        print(f"KNOWN-FINDING: property={prop} {f['text']} (seen in {n} runs; id={fid})")
    for w in workers:
        w.close()
    wall = time.perf_counter() - t_start
    write_evidence(prop, tier, seed, mod, results, reported, known_lines, harness, wall, nruns)
    if harness:
        print(f"HARNESS-ERROR {len(harness)} problem(s); first: {json.dumps(harness[0], default=str)[:1500]}")
        if exit_code != 1:  # a confirmed, replayable violation is still the verdict
            return 2
    ok = len(results)
    print(f"{prop} {tier}: {ok} runs, {len(viol)} violating observations, "
          f"{len(reported)} unknown clause(s), wall {wall:.1f}s")
    return exit_code


def confirm_and_minimise(overlay, mod, prop, clause, r, v, replay_dir, tier):
    plan = None
    replanned = False
    if isinstance(v[2], dict):
        # an engine that ran several variants of one plan names the failing variant
        plan = v[2].pop("_replan", None)
        replanned = plan is not None
    if plan is None:
        plan = r.get("plan")
    if plan is None:
        plan = mod.gen_plan(int(os.environ.get("VERIF_SEED", "0")), r["i"], tier)
    w = Worker(overlay, r["impl"], r["hashseed"], 999)
    try:
        res = w.run_plan(plan)
        same = any(x[0] == prop and x[1] == clause for x in res.get("violations", []))
        first = r.get("digest")
        if replanned:
            # the recorded digest belongs to the whole sweep; determinism of the named
            # variant is established by running it a second time
            first = res.get("digest")
            res = w.run_plan(plan)
            same = same and any(x[0] == prop and x[1] == clause for x in res.get("violations", []))
        if not same or res.get("digest") != first:
            return None, {"first": first, "second": res.get("digest"), "same_clause": same}
        m = Minimiser(w, prop, clause, budget=int(os.environ.get("VERIF_MIN_BUDGET", "200")))
        small = m.minimise(plan, mod)
        final = w.run_plan(small)
        vio = [x for x in final.get("violations", []) if x[0] == prop and x[1] == clause]
        if not vio:
            small, final, vio = plan, res, [v]
        h = hashlib.sha1(json.dumps(small, sort_keys=True).encode()).hexdigest()[:10]
        path = os.path.join(replay_dir, f"{prop}-{clause}-{h}.json")
        doc = {"format": 1, "property": prop, "clause": clause, "impl": r["impl"],
               "hashseed": r["hashseed"], "plan": small, "violation": vio[0][2],
               "digest": final.get("digest"), "original_index": r["i"],
               "minimiser_runs": m.runs, "tail": final.get("tail")}
        with open(path, "w") as f:
            json.dump(doc, f, indent=1, default=str)
        return path, None
    finally:
        w.close()


def write_evidence(prop, tier, seed, mod, results, reported, known_lines, harness, wall, target):
    faults = {}
    probes = {}
    sigs = set()
    virt = 0.0
    impls = {}
    samples = []
    nsub = 0
    for r in results:
        for k, n in (r.get("faults") or {}).items():
            faults[k] = faults.get(k, 0) + n
        for k, n in (r.get("probes") or {}).items():
            probes[k] = probes.get(k, 0) + n
        if r.get("nontrivial") and r.get("subsigs"):
            sigs.update(r["subsigs"])
        elif r.get("nontrivial") and r.get("sig"):
            sigs.add(r["sig"])
        nsub += r.get("subruns", 1)
        virt += r.get("virt") or 0.0
        impls[r.get("impl")] = impls.get(r.get("impl"), 0) + 1
        if r.get("plan") is not None and len(samples) < 3:
            samples.append({"index": r["i"], "plan": r["plan"], "digest": r.get("digest"),
                            "faults_fired": r.get("faults")})
    n = nsub
    if len(samples) < 2:
        # sample plans are regenerated (pure function of seed and index)
        for r in results[:3]:
            try:
                samples.append({"index": r["i"], "plan": mod.gen_plan(seed, r["i"], tier),
                                "digest": r.get("digest"), "faults_fired": r.get("faults")})
            except Exception:  # noqa: BLE001
                pass
    ev = {
        "property_id": prop, "tier": tier, "seed": seed, "level": mod.LEVEL,
        "wall_s": round(wall, 2), "violations": len(reported),
        "coverage": {
            "evaluations": n,
            "distinct_nontrivial": len(sigs),
            "rule": getattr(mod, "RULE", (
                "each evaluation = one seeded simulated execution of the real client against the "
                "cluster model (plan = pure function of VERIF_SEED and run index); non-trivial = at "
                "least one injected fault fired, or >= 2 harness tasks ran concurrently; distinct = "
                "distinct schedule signatures (hash of the sequence of request arrivals per node, "
                "fault firings and connection closes, times removed)")),
            "samples": samples[:3],
            "target_runs": target,
            "plans_executed": len(results),
            "runs_per_hour": round(n / wall * 3600) if wall > 0 else 0,
            "seeds_per_hour": round(n / wall * 3600) if wall > 0 else 0,  # one derived seed per run
            "simulated_seconds": round(virt, 1),
            "fault_kinds_fired": faults,
            "probes": probes,
            "implementations": impls,
            "known_findings_seen": {fid: n_ for fid, (f, n_) in known_lines.items()},
            "unknown_violation_clauses": [x["clause"] for x in reported],
            "harness_errors": len(harness),
            "components": getattr(mod, "COMPONENTS", {
                "real": ["AIOKafkaProducer/Consumer, Sender, MessageAccumulator, TransactionManager, "
                         "Fetcher, SubscriptionState, GroupCoordinator, AIOKafkaClient, "
                         "AIOKafkaConnection, aiokafka.protocol, aiokafka.record (compiled and "
                         "pure-Python, rebuilt from the working tree), asyncio streams/tasks/futures"],
                "simulated": ["event loop scheduler and clock", "transports / connect", "thread pool"],
                "model": ["brokers, group coordinator, transaction coordinator (independent wire "
                          "and record codecs)"],
            }),
        },
        "assumptions": getattr(mod, "ASSUMPTIONS", [
            "cluster model fidelity (DESIGN.md 2.4 / Appendix A)",
            "trusted base: CPython, asyncio streams, zlib, cramjam, the simulator itself",
            "sampling, not proof: a clean batch is evidence only",
        ]),
    }
    os.makedirs(os.path.join(VERIF, "evidence"), exist_ok=True)
    with open(os.path.join(VERIF, "evidence", f"{prop}.json"), "w") as f:
        json.dump(ev, f, indent=1, default=str)


# ------------------------------------------------------------------------------------
# replay / selftest / CLI


def run_replay(path):
    import props
    build.install_signal_cleanup()
    with open(path) as f:
        doc = json.load(f)
    if doc.get("engine") == "c10":
        from props import c10
        return c10.replay(doc, path)
    overlay = build.build()
    w = Worker(overlay, doc["impl"], doc["hashseed"], 0)
    try:
        res = w.run_plan(doc["plan"])
    finally:
        w.close()
    prop, clause = doc["property"], doc["clause"]
    vio = [v for v in res.get("violations", []) if v[0] == prop and v[1] == clause]
    same_digest = res.get("digest") == doc.get("digest")
    if vio:
        print(f"VIOLATION property={prop} replay={path}")
        print(f"  reproduced clause={clause} digest_identical={same_digest} data="
              f"{json.dumps(vio[0][2], default=str)[:600]}")
        return 1
    print(f"not reproduced: clause={clause} status={res.get('status')} digest_identical={same_digest}")
    return 0


def run_selftest(props_list, n=24, seed=None):
    """Determinism: same plan twice in one worker, in a fresh interpreter, and
    after other runs, must give identical event-log digests."""
    import props
    build.install_signal_cleanup()
    seed = int(os.environ.get("VERIF_SEED", "0")) if seed is None else seed
    overlay = build.build()
    bad = 0
    total = 0
    for prop in props_list:
        mod = props.get(prop)
        if hasattr(mod, "run_check"):
            continue
        for impl, hs in (("c", 0), ("py", 1), ("c", 3)):
            w1 = Worker(overlay, impl, hs, 1)
            w2 = Worker(overlay, impl, hs, 2)
            try:
                plans = [mod.gen_plan(seed, i, "quick") for i in range(n)]
                first = [w1.run_plan(p) for p in plans]
                # fresh interpreter, reverse order
                second = {}
                for i in reversed(range(n)):
                    second[i] = w2.run_plan(plans[i])
                third = [w1.run_plan(p) for p in plans]  # same worker, after n other runs
                for i in range(n):
                    total += 1
                    d = {first[i].get("digest"), second[i].get("digest"), third[i].get("digest")}
                    if len(d) != 1 or None in d:
                        bad += 1
                        print(f"NONDETERMINISTIC {prop} impl={impl} hashseed={hs} index={i}: "
                              f"{[first[i].get('digest'), second[i].get('digest'), third[i].get('digest')]} "
                              f"status={first[i].get('status')}/{second[i].get('status')}")
            finally:
                w1.close()
                w2.close()
    print(f"selftest: {total} plan/impl combinations, {bad} nondeterministic")
    return 2 if bad else 0


def main(argv):
    if len(argv) < 2:
        print("usage: check <Cxx|selftest|replay> [quick|thorough|path]")
        return 2
    cmd = argv[1]
    seed = int(os.environ.get("VERIF_SEED", "0"))
    if cmd == "replay":
        return run_replay(argv[2])
    if cmd == "selftest":
        import props
        which = argv[2:] or sorted(props.MODULES)
        return run_selftest(which)
    tier = argv[2] if len(argv) > 2 else os.environ.get("VERIF_TIER", "quick")
    return run_check(cmd, tier, seed)


if __name__ == "__main__":
    sys.exit(main(sys.argv))
