"""Deterministic virtual-time asyncio event loop.

One SimLoop = one simulated world.  Every timer (client timers *and* simulated
network deliveries, which are scheduled through ``call_at``) lives in one heap
ordered by (virtual time, global sequence number), so an execution is a pure
function of the code and of the seeded decisions taken by the simulator.
"""
from __future__ import annotations

import asyncio
import collections
import contextvars
import heapq
from asyncio import events

OWNER = contextvars.ContextVar("simowner", default="sim")

_MISSING = object()


class Quiescent(Exception):
    """Nothing runnable, no timer: the run can make no further progress."""


class HarnessError(Exception):
    """The simulator's own code (cluster model, network) raised."""


class StepLimit(Exception):
    """Loop iteration / same-instant budget exhausted (spin or runaway)."""


class Clock:
    """Mutable clock cell read by the patched time.* functions."""

    def __init__(self):
        self.now = 1000.0
        self.wall_offset = 1_600_000_000.0

    def monotonic(self):
        return self.now

    def time(self):
        return self.now + self.wall_offset

    def time_ns(self):
        return int((self.now + self.wall_offset) * 1e9)

    def monotonic_ns(self):
        return int(self.now * 1e9)


CLOCK = Clock()


class SimTimerHandle(events.TimerHandle):
    __slots__ = ("_seq",)

    def __init__(self, when, seq, callback, args, loop, context=None):
        super().__init__(when, callback, args, loop, context)
        self._seq = seq

    def __lt__(self, other):
        if self._when != other._when:
            return self._when < other._when
        return self._seq < other._seq

    def __le__(self, other):
        return self == other or self < other

    def __gt__(self, other):
        return other < self

    def __ge__(self, other):
        return self == other or other < self

    def __eq__(self, other):
        return self is other

    def __hash__(self):
        return self._seq


class SimFuture(asyncio.Future):
    def __init__(self, *, loop):
        self._sid = loop._next_serial()
        super().__init__(loop=loop)

    def __hash__(self):
        return self._sid


class SimTask(asyncio.Task):
    def __init__(self, coro, *, loop, name=None, context=None):
        self._sid = loop._next_serial()
        if name is None:
            name = f"T{self._sid}"
        super().__init__(coro, loop=loop, name=name, context=context)

    def __hash__(self):
        return self._sid


class SimLoop(asyncio.BaseEventLoop):
    def __init__(self, clock: Clock = CLOCK, *, start=1000.0, max_iters=2_000_000,
                 max_same_instant=20000, iter_cost=0.0):
        super().__init__()
        self.clock = clock
        clock.now = start
        clock.wall_offset = 1_600_000_000.0  # (a wall_clock_jump of an earlier run must not leak)
        self._serial = 0
        self._tseq = 0
        self.iters = 0
        self.max_iters = max_iters
        self.max_same_instant = max_same_instant
        self._same_instant = 0
        # every loop iteration costs at least 1 us of virtual time: code that polls
        # the clock in a busy loop terminates in reality and must do so here
        self.iter_cost = max(iter_cost, 1e-6)
        self.connector = None  # callable(protocol_factory, host, port) -> coroutine
        self.exc_contexts = []  # recorded call_exception_handler contexts
        self.dead_owners = set()
        self.stalled = {}  # owner -> list of parked handles
        self.fired = 0  # number of timer handles that fired (events)
        self.on_event = None  # callback(k) after k-th fired timer event
        self._clock_resolution = 1e-9
        self.all_tasks_created = []  # weak tracking not needed: short runs
        self.transports = []
        self.fatal = None  # exception raised inside simulator-owned code
        self.spin_trace = []  # callbacks run just before a same-instant StepLimit
        self.spin_owners = []  # and who owned them

    # -- identity / clock ---------------------------------------------------
    def _next_serial(self):
        self._serial += 1
        return self._serial

    def time(self):
        return self.clock.now

    # -- factories ----------------------------------------------------------
    def create_future(self):
        return SimFuture(loop=self)

    def create_task(self, coro, *, name=None, context=None):
        self._check_closed()
        task = SimTask(coro, loop=self, name=name, context=context)
        self.all_tasks_created.append(task)
        return task

    def call_at(self, when, callback, *args, context=None):
        self._check_closed()
        self._tseq += 1
        timer = SimTimerHandle(when, self._tseq, callback, args, self, context)
        heapq.heappush(self._scheduled, timer)
        timer._scheduled = True
        return timer

    def call_later(self, delay, callback, *args, context=None):
        if delay is None:
            raise TypeError("delay must not be None")
        # a real loop needs > 1 us to come back to a timer: a positive delay too
        # small to move a float clock must not fire "at the same instant" forever
        if 0 <= delay < 1e-6:
            delay = 1e-6
        return self.call_at(self.time() + delay, callback, *args, context=context)

    def call_soon_threadsafe(self, callback, *args, context=None):
        return self.call_soon(callback, *args, context=context)

    def _write_to_self(self):
        pass

    def _process_events(self, event_list):
        pass

    def run_in_executor(self, executor, func, *args):
        fut = self.create_future()

        def run():
            if fut.cancelled():
                return
            try:
                res = func(*args)
            except BaseException as exc:  # noqa: BLE001
                fut.set_exception(exc)
            else:
                fut.set_result(res)

        self.call_soon(run)
        return fut

    async def create_connection(self, protocol_factory, host=None, port=None, **kw):
        if self.connector is None:
            raise OSError("no simulated network attached")
        return await self.connector(protocol_factory, host, port)

    async def getaddrinfo(self, *a, **k):  # pragma: no cover
        raise OSError("DNS is not simulated")

    async def shutdown_default_executor(self, timeout=None):
        return None

    def call_exception_handler(self, context):
        ctx = dict(context)
        exc = ctx.get("exception")
        # who owns the failing callback / task: the handle's (task's) own context, not the
        # ambient one (Handle._run reports after leaving the callback's context)
        owner = None
        h = ctx.get("handle")
        try:
            if h is not None and getattr(h, "_context", None) is not None:
                owner = h._context.get(OWNER, "sim")
            else:
                t = ctx.get("task") or ctx.get("future")
                if isinstance(t, asyncio.Task):
                    owner = t.get_context().get(OWNER, "sim")
        except Exception:  # noqa: BLE001
            owner = None
        if owner is None:
            owner = OWNER.get()
        msg = str(ctx.get("message") or "")
        if owner == "sim" and exc is not None and self.fatal is None \
                and "was never retrieved" not in msg:
            # (an un-retrieved exception of a plain future is reported from __del__, in
            # nobody's context; it is recorded below but is not a simulator failure)
            self.fatal = exc
        self.exc_contexts.append(
            {
                "message": ctx.get("message"),
                "exception": repr(exc) if exc is not None else None,
                "exc_type": type(exc).__name__ if exc is not None else None,
                "time": self.clock.now,
                "owner": owner,
            }
        )

    # -- crash / stall ------------------------------------------------------
    def kill(self, owner):
        self.dead_owners.add(owner)
        self.stalled.pop(owner, None)

    def stall(self, owner, duration):
        if owner in self.dead_owners or owner in self.stalled:
            return
        self.stalled[owner] = []
        self.call_at(self.time() + duration, self._unstall, owner,
                     context=_SIM_CTX)

    def _unstall(self, owner):
        parked = self.stalled.pop(owner, None)
        if parked:
            self._ready.extend(parked)

    # -- the scheduler ------------------------------------------------------
    def _run_once(self):
        self.iters += 1
        if self.fatal is not None:
            raise HarnessError(repr(self.fatal)) from self.fatal
        if self.iters > self.max_iters:
            raise StepLimit(f"more than {self.max_iters} loop iterations")
        sched = self._scheduled
        while sched and sched[0]._cancelled:
            h = heapq.heappop(sched)
            h._scheduled = False
        self._timer_cancelled_count = 0

        if not self._ready and not self._stopping:
            if not sched:
                raise Quiescent()
            when = sched[0]._when
            if when > self.clock.now:
                self.clock.now = when
                self._same_instant = 0
        elif self.iter_cost and not self._stopping:
            self.clock.now += self.iter_cost
        self._same_instant += 1
        if self._same_instant > self.max_same_instant:
            raise StepLimit(
                f"more than {self.max_same_instant} iterations at t={self.clock.now}"
            )

        now = self.clock.now
        ready = self._ready
        while sched:
            h = sched[0]
            if h._when > now:
                break
            heapq.heappop(sched)
            h._scheduled = False
            if not h._cancelled:
                ready.append(h)

        dead = self.dead_owners
        stalled = self.stalled
        ntodo = len(ready)
        for _ in range(ntodo):
            handle = ready.popleft()
            if handle._cancelled:
                continue
            if dead or stalled:
                owner = handle._context.get(OWNER, "sim")
                if owner in dead:
                    continue
                if owner in stalled:
                    stalled[owner].append(handle)
                    continue
            is_timer = type(handle) is SimTimerHandle
            if self._same_instant > self.max_same_instant - 40:
                self.spin_trace.append(_describe(handle))
                self.spin_owners.append(handle._context.get(OWNER, "sim")
                                        if handle._context is not None else "sim")
            handle._run()
            if is_timer:
                self.fired += 1
                if self.on_event is not None:
                    self.on_event(self.fired)
        handle = None

    # -- inspection for C19 -------------------------------------------------
    def live_handles(self, owner):
        out = []
        for h in self._scheduled:
            if not h._cancelled and h._context.get(OWNER, "sim") == owner:
                out.append(h)
        for h in self._ready:
            if not h._cancelled and h._context.get(OWNER, "sim") == owner:
                out.append(h)
        return out

    def live_tasks(self, owner):
        out = []
        for t in self.all_tasks_created:
            if not t.done():
                ctx = t.get_context()
                if ctx.get(OWNER, "sim") == owner:
                    out.append(t)
        return out


def _describe(handle):
    cb = handle._callback
    owner = getattr(cb, "__self__", None)
    name = getattr(cb, "__qualname__", None) or repr(cb)
    if isinstance(owner, asyncio.Task):
        coro = owner.get_coro()
        fr = getattr(coro, "cr_frame", None)
        where = f"{fr.f_code.co_filename.rsplit('/', 1)[-1]}:{fr.f_lineno}" if fr else "?"
        return f"step {owner.get_name()} {getattr(coro, '__qualname__', coro)} @{where}"
    return name[:80]


def _make_sim_ctx():
    ctx = contextvars.copy_context()
    ctx.run(OWNER.set, "sim")
    return ctx


_SIM_CTX = _make_sim_ctx()


def sim_context():
    """A context whose OWNER is 'sim' (used for network / cluster events)."""
    return _SIM_CTX


def owner_context(owner):
    ctx = contextvars.copy_context()
    ctx.run(OWNER.set, owner)
    return ctx


def run(loop: SimLoop, coro):
    """Run coro to completion on loop; raises Quiescent / StepLimit as is."""
    events.set_event_loop(loop)
    try:
        return loop.run_until_complete(coro)
    finally:
        events.set_event_loop(None)


def hard_close(loop: SimLoop):
    """Drop everything still scheduled and close (no finalisers are run)."""
    try:
        for t in loop.all_tasks_created:
            if not t.done():
                # silence "Task was destroyed but it is pending"
                t._log_destroy_pending = False
        loop._ready.clear()
        loop._scheduled.clear()
        if not loop.is_closed():
            loop.close()
    except Exception:  # noqa: BLE001
        pass


__all__ = [
    "SimLoop", "Clock", "CLOCK", "OWNER", "Quiescent", "StepLimit", "run",
    "hard_close", "sim_context", "owner_context", "SimFuture", "SimTask",
]
_ = collections
