"""Single-copy reference model of a Kafka cluster (see DESIGN.md 2.4, App. A).

Brokers are network endpoints; partition logs, group state and transaction
state are shared (one copy), so any loss / duplication / reordering an oracle
observes was caused by the client under test."""
from __future__ import annotations

import collections
import struct
import zlib

from . import recfmt, wire
from .recfmt import RecError

# error codes ------------------------------------------------------------------
NONE = 0
OFFSET_OUT_OF_RANGE = 1
CORRUPT_MESSAGE = 2
UNKNOWN_TOPIC_OR_PARTITION = 3
LEADER_NOT_AVAILABLE = 5
NOT_LEADER = 6
REQUEST_TIMED_OUT = 7
COORDINATOR_LOAD_IN_PROGRESS = 14
COORDINATOR_NOT_AVAILABLE = 15
NOT_COORDINATOR = 16
NOT_ENOUGH_REPLICAS = 19
NOT_ENOUGH_REPLICAS_AFTER_APPEND = 20
ILLEGAL_GENERATION = 22
INCONSISTENT_GROUP_PROTOCOL = 23
UNKNOWN_MEMBER_ID = 25
INVALID_SESSION_TIMEOUT = 26
REBALANCE_IN_PROGRESS = 27
TOPIC_AUTHORIZATION_FAILED = 29
GROUP_AUTHORIZATION_FAILED = 30
UNSUPPORTED_SASL_MECHANISM = 33
ILLEGAL_SASL_STATE = 34
UNSUPPORTED_VERSION = 35
OUT_OF_ORDER_SEQUENCE = 45
DUPLICATE_SEQUENCE = 46
INVALID_PRODUCER_EPOCH = 47
INVALID_TXN_STATE = 48
INVALID_PRODUCER_ID_MAPPING = 49
CONCURRENT_TRANSACTIONS = 51
TRANSACTIONAL_ID_AUTHORIZATION_FAILED = 53
OPERATION_NOT_ATTEMPTED = 55
KAFKA_STORAGE_ERROR = 56
SASL_AUTHENTICATION_FAILED = 58
MEMBER_ID_REQUIRED = 79
FENCED_INSTANCE_ID = 82

INT32_MAX = 2**31 - 1


def seq_inc(s, n):
    """Kafka's DefaultRecordBatch.incrementSequence."""
    if s > INT32_MAX - n:
        return n - (INT32_MAX - s) - 1
    return s + n


def patch_v2(raw, base_offset, leader_epoch=0, log_append_ms=None):
    b = bytearray(raw)
    struct.pack_into(">q", b, 0, base_offset)
    struct.pack_into(">i", b, 12, leader_epoch)
    if log_append_ms is not None:
        (attrs,) = struct.unpack_from(">h", b, 21)
        struct.pack_into(">h", b, 21, attrs | 8)
        struct.pack_into(">q", b, 35, log_append_ms)
        struct.pack_into(">I", b, 17, recfmt.crc32c(bytes(b[21:])))
    return bytes(b)


class Stored:
    __slots__ = ("base_offset", "last_offset", "raw", "batch", "append_ms", "seq")

    def __init__(self, base_offset, last_offset, raw, batch, append_ms, seq):
        self.base_offset = base_offset
        self.last_offset = last_offset
        self.raw = raw
        self.batch = batch
        self.append_ms = append_ms
        self.seq = seq  # global event sequence number of the append


class PidState:
    __slots__ = ("epoch", "last_seq", "ring")

    def __init__(self):
        self.epoch = -1
        self.last_seq = -1
        self.ring = collections.deque(maxlen=5)


class Partition:
    def __init__(self, cluster, topic, index, leader):
        self.cluster = cluster
        self.topic = topic
        self.index = index
        self.leader = leader
        self.log = []
        self.next_offset = 0
        self.log_start = 0
        self.pids = {}
        self.open_txns = {}  # pid -> first offset
        self.aborted = []  # (pid, first_offset, marker_offset)
        self.waiters = []
        self.hw_override = None  # for consumer sims: expose HW below the log end

    @property
    def tp(self):
        return (self.topic.name, self.index)

    @property
    def hw(self):
        # (log start <= LSO <= HW <= log end, as on a broker)
        if self.hw_override is not None:
            return max(min(self.hw_override, self.next_offset), self.log_start)
        return self.next_offset

    @property
    def lso(self):
        if self.open_txns:
            return max(min(min(self.open_txns.values()), self.hw), self.log_start)
        return self.hw

    def add_stored(self, raw, append_ms=None, track_txn=True):
        """Append an already offset-stamped batch blob (one or more batches)."""
        w = self.cluster.world
        out = []
        for b in recfmt.decode_batches(raw, verify_crc=True, allow_partial=False):
            if b.base_offset < self.next_offset:
                raise RecError(f"offset regression {b.base_offset} < {self.next_offset}")
            st = Stored(b.base_offset, b.last_offset, b.raw, b, append_ms,
                        w.log.add(w.now(), "append", self.topic.name, self.index,
                                  b.base_offset, b.last_offset, b.pid, b.base_seq))
            self.log.append(st)
            self.next_offset = b.last_offset + 1
            if track_txn and b.magic == 2 and b.transactional:
                if b.control:
                    key = b.records[0].key if b.records else b"\x00\x00\x00\x00"
                    commit = struct.unpack(">hh", key[:4])[1] == 1
                    first = self.open_txns.pop(b.pid, None)
                    if first is not None and not commit:
                        self.aborted.append((b.pid, first, b.base_offset))
                elif b.pid not in self.open_txns:
                    self.open_txns[b.pid] = b.base_offset
            out.append(st)
        self.wake()
        return out

    def wake(self):
        ws, self.waiters = self.waiters, []
        for fn in ws:
            fn()

    def visible_records(self, isolation=0, upto=None):
        """Reference reader: data records a consumer may see (offset order)."""
        bound = self.lso if isolation == 1 else self.hw
        if upto is not None:
            bound = min(bound, upto)
        aborted_ranges = collections.defaultdict(list)
        for pid, first, marker in self.aborted:
            aborted_ranges[pid].append((first, marker))
        out = []
        for st in self.log:
            b = st.batch
            if b.control:
                continue
            for r in b.records:
                if r.offset >= bound:
                    continue
                if isolation == 1 and b.transactional and any(
                        f <= r.offset < m for f, m in aborted_ranges.get(b.pid, ())):
                    continue
                out.append((r, b))
        return out


class Topic:
    def __init__(self, cluster, name, nparts, ts_type=0, internal=False, authorized=True):
        self.cluster = cluster
        self.name = name
        self.ts_type = ts_type  # 0 CreateTime, 1 LogAppendTime
        self.internal = internal
        self.authorized = authorized
        self.writable = True  # Write ACL (Produce / AddPartitionsToTxn); `authorized` also hides the topic
        self.partitions = []
        for i in range(nparts):
            self.add_partition()

    def add_partition(self):
        i = len(self.partitions)
        nodes = sorted(self.cluster.brokers)
        leader = nodes[(zlib.crc32(self.name.encode()) + i) % len(nodes)]
        p = Partition(self.cluster, self, i, leader)
        self.partitions.append(p)
        return p


# client-supported versions (written down from the listing of the library's
# public protocol classes; used only by the C11 negotiation monitor)
CLIENT_VERSIONS = {
    0: range(0, 8), 1: range(1, 12), 2: range(0, 4), 3: range(0, 6), 8: range(2, 4),
    9: range(1, 4), 10: range(0, 2), 11: (0, 1, 2, 5), 12: range(0, 2), 13: range(0, 2),
    14: (0, 1, 3), 17: range(0, 2), 18: (0,), 22: (0,), 24: (0,), 25: (0,), 26: (0,),
    28: (0,), 36: range(0, 2), 21: range(0, 3), 46: (0,),
}

NEWEST = {
    0: (0, 7), 1: (0, 11), 2: (0, 5), 3: (0, 8), 8: (0, 7), 9: (0, 5), 10: (0, 2),
    11: (0, 5), 12: (0, 3), 13: (0, 3), 14: (0, 3), 17: (0, 1), 18: (0, 2), 22: (0, 1),
    24: (0, 1), 25: (0, 1), 26: (0, 1), 28: (0, 2), 36: (0, 1), 21: (0, 1),
}


class Broker:
    def __init__(self, cluster, node_id):
        self.cluster = cluster
        self.world = cluster.world
        self.node_id = node_id
        self.host = f"broker{node_id}"
        self.port = 9092
        self.up = True
        self.blackhole = False
        self.api_versions = dict(NEWEST)
        self.conns = []
        self.md_snapshot = None  # (until_time, snapshot) stale metadata view
        self.sasl = None  # SaslServer factory

    # ---- endpoint interface ---------------------------------------------------
    def accepting(self):
        return self.up

    def blackholed(self):
        return self.blackhole

    def on_connect(self, conn):
        self.conns.append(conn)

    def on_conn_closed(self, conn):
        if conn in self.conns:
            self.conns.remove(conn)
        self.cluster.on_conn_closed(self, conn)

    def on_raw(self, conn, payload):
        self.cluster.sasl_raw(self, conn, payload)

    def on_request(self, conn, req):
        w = self.world
        cl = self.cluster
        now = w.now()
        req.node = self.node_id
        req.seq_arrive = w.log.add(now, "s_req", conn.id, self.node_id, req.name, req.api_version,
                                   req.correlation_id)
        cl.nreq[req.name] += 1
        cl.nreq[(req.name, self.node_id)] += 1
        req.nth = cl.nreq[req.name]
        cl.monitor_version(self, conn, req)
        w.emit("request_arrival", self, conn, req)
        action = w.faults.match_request(self, conn, req) if w.faults else None
        self._dispatch(conn, req, action)

    def _dispatch(self, conn, req, action):
        w = self.world
        kind = action[0] if action else None
        if conn.server_closed:
            # a delayed request whose connection went away meanwhile is dropped
            # unapplied (the properties quantify over "dropped before / after
            # apply" and "response lost", not over "applied after the client
            # already gave up")
            w.probe("delayed_request_dropped")
            return
        if kind == "drop_before_apply":
            w.count_fault(kind)
            conn.server_close(action[1])
            return
        if kind == "delay":
            w.count_fault(kind, w.now() + action[1])
            w.later(action[1], self._dispatch, conn, req, None)
            return
        if kind == "reply_error":
            w.count_fault(f"reply_error:{req.name}:{action[1]}")
            body = self.cluster.error_body(req, action[1])
            req.injected_error = True
            if body is None:
                self._respond(conn, req, None, None)
            else:
                self._respond(conn, req, None, body)
            return
        if kind == "corrupt_once":
            req.corrupt_once = True
        respond = lambda body: self._respond(conn, req, action, body)  # noqa: E731
        try:
            self.cluster.handle(self, conn, req, respond)
        except Exception as exc:  # model bug -> make it loud
            w.violation("HARNESS", "model_exception", {"req": repr(req), "exc": repr(exc)})
            raise

    def _respond(self, conn, req, action, body):
        """body None => request has no response (acks=0)."""
        w = self.world
        kind = action[0] if action else None
        if conn.server_closed:
            return
        if body is None:
            conn.request_done()
            return
        if kind == "drop_after_apply":
            w.count_fault(kind)
            conn.server_close(action[1])
            return
        if kind == "lose_response":
            w.count_fault(kind, w.now() + self.cluster.max_request_timeout)
            conn.stalled = True
            w.log.add(w.now(), "s_stall", conn.id)
            return
        w.emit("response_body", conn, req, body, getattr(req, "injected_error", False))
        data = wire.encode_response(req, body)
        if kind == "reset_at_byte":
            w.count_fault(kind)
            conn.reset_at_s2c = conn.bytes_s2c + min(action[1], len(data) - 1)
        svc = w.rng.uniform(0.0, self.cluster.service_time, "svc", conn.id)
        w.later(svc, self._send, conn, req, data)

    def _send(self, conn, req, data):
        w = self.world
        if conn.server_closed:
            return
        w.log.add(w.now(), "s_resp", conn.id, req.name, req.correlation_id, len(data))
        conn.send(data, tag=(req.name, req.correlation_id))
        conn.request_done()

    # ---- broker life cycle ------------------------------------------------------
    def go_down(self, how="reset"):
        self.up = False
        for c in list(self.conns):
            c.server_close(how)

    def go_up(self):
        self.up = True


class Cluster:
    def __init__(self, world, nbrokers=1):
        self.world = world
        world.cluster = self
        self.brokers = {}
        for i in range(1, nbrokers + 1):
            b = Broker(self, i)
            self.brokers[i] = b
            world.net.endpoints[(b.host, b.port)] = b
        self.controller = 1
        self.cluster_id = "simcluster"
        self.topics = {}
        self.nreq = collections.Counter()
        self.service_time = 0.0005
        self.max_request_timeout = 5.0
        self.next_pid = 1000
        self.idem_pids = {}
        self.produce_ledger = []  # every batch of every arriving Produce request
        self.coordinators = {}  # (type, key) -> node
        self.group_offsets = {}  # group -> {(topic, partition): (offset, metadata)}
        self.coordinator_loading = {}  # node -> until
        self.handlers = {
            "ApiVersions": self.h_api_versions,
            "Metadata": self.h_metadata,
            "Produce": self.h_produce,
            "Fetch": self.h_fetch,
            "ListOffsets": self.h_list_offsets,
            "FindCoordinator": self.h_find_coordinator,
            "SaslHandshake": self.h_sasl_handshake,
            "SaslAuthenticate": self.h_sasl_authenticate,
        }
        self.groups = None  # GroupCoordinatorModel, attached by group.py
        self.txns = None  # TxnCoordinatorModel, attached by txn.py
        self.fetch_cut = "bytes"  # bytes | batches
        self.unknown_version_ok = False
        self.seq_start = {}  # (client_id, tp) -> pre-aligned starting sequence
        self.auto_create = False

    def bootstrap(self):
        return [f"{b.host}:{b.port}" for b in self.brokers.values()]

    # ---- topology -----------------------------------------------------------------
    def create_topic(self, name, nparts, ts_type=0, internal=False, authorized=True):
        t = Topic(self, name, nparts, ts_type, internal, authorized)
        self.topics[name] = t
        self.world.log.add(self.world.now(), "topic_create", name, nparts)
        return t

    def partition(self, topic, index):
        t = self.topics.get(topic)
        if t is None or index < 0 or index >= len(t.partitions):
            return None
        return t.partitions[index]

    def all_partitions(self):
        for t in self.topics.values():
            yield from t.partitions

    def move_leader(self, topic, index, node):
        p = self.partition(topic, index)
        if p is None:
            return
        self.world.log.add(self.world.now(), "leader_move", topic, index, p.leader, node)
        p.leader = node
        p.wake()

    def coordinator_for(self, ctype, key):
        node = self.coordinators.get((ctype, key))
        if node is None:
            # (first lookup: the role is given to a live broker if there is one)
            nodes = sorted(n for n in self.brokers if self.brokers[n].up) or sorted(self.brokers)
            node = nodes[zlib.crc32(f"{ctype}/{key}".encode()) % len(nodes)]
            self.coordinators[(ctype, key)] = node
        return node

    def on_conn_closed(self, broker, conn):
        if self.groups is not None:
            self.groups.on_conn_closed(conn)

    # ---- C11 negotiation monitor -------------------------------------------------------
    def monitor_version(self, broker, conn, req):
        key = req.api_key
        if key == 18:
            return
        w = self.world
        adv = broker.api_versions.get(key)
        if adv is None:
            w.violation("C11", "request_for_unadvertised_api",
                        {"api": req.name, "version": req.api_version, "node": broker.node_id})
            return
        lo, hi = adv
        v = req.api_version
        w.probe(f"wire:{req.name}:v{v}")
        if not lo <= v <= hi:
            w.violation("C11", "version_outside_advertised_range",
                        {"api": req.name, "version": v, "advertised": [lo, hi]})
            return
        mine = CLIENT_VERSIONS.get(key)
        if mine is not None:
            cands = [x for x in mine if lo <= x <= hi]
            if cands and v != max(cands):
                w.violation("C11", "not_highest_common_version",
                            {"api": req.name, "version": v, "expected": max(cands),
                             "advertised": [lo, hi]})

    # ---- dispatch -----------------------------------------------------------------------
    def handle(self, broker, conn, req, respond):
        h = self.handlers.get(req.name)
        if h is None:
            raise RuntimeError(f"no handler for {req.name}")
        h(broker, conn, req, respond)

    def error_body(self, req, code):
        """A response for `req` carrying `code` wherever the API puts errors."""
        b = req.body
        n = req.name
        v = req.api_version
        if n == "Produce":
            if b["acks"] == 0:
                return None
            return {"topics": [{"name": t["name"], "partitions": [
                {"partition": p["partition"], "error_code": code, "base_offset": -1,
                 "log_append_time": -1, "log_start_offset": -1} for p in t["partitions"]]}
                for t in b["topics"]]}
        if n == "Fetch":
            return {"error_code": 0, "session_id": 0, "topics": [{"topic": t["topic"], "partitions": [
                {"partition": p["partition"], "error_code": code, "high_watermark": -1,
                 "last_stable_offset": -1, "log_start_offset": -1, "aborted_transactions": None,
                 "preferred_read_replica": -1, "records": b""} for p in t["partitions"]]}
                for t in b["topics"]]}
        if n == "ListOffsets":
            return {"topics": [{"topic": t["topic"], "partitions": [
                {"partition": p["partition"], "error_code": code, "offsets": [], "timestamp": -1,
                 "offset": -1} for p in t["partitions"]]} for t in b["topics"]]}
        if n == "FindCoordinator":
            return {"error_code": code, "error_message": None, "node_id": -1, "host": "", "port": -1}
        if n == "JoinGroup":
            return {"error_code": code, "generation_id": -1, "protocol_name": "", "leader": "",
                    "member_id": b["member_id"] if code != MEMBER_ID_REQUIRED else "", "members": []}
        if n == "SyncGroup":
            return {"error_code": code, "assignment": b""}
        if n in ("Heartbeat", "LeaveGroup", "AddOffsetsToTxn", "EndTxn"):
            return {"error_code": code}
        if n == "OffsetCommit":
            return {"topics": [{"name": t["name"], "partitions": [
                {"partition": p["partition"], "error_code": code} for p in t["partitions"]]}
                for t in b["topics"]]}
        if n == "OffsetFetch":
            if v >= 2:
                return {"topics": [], "error_code": code}
            return {"topics": [{"name": t["name"], "partitions": [
                {"partition": p, "offset": -1, "metadata": "", "error_code": code}
                for p in t["partitions"]]} for t in (b["topics"] or [])], "error_code": code}
        if n == "InitProducerId":
            return {"error_code": code, "producer_id": -1, "producer_epoch": -1}
        if n == "AddPartitionsToTxn":
            return {"results": [{"name": t["name"], "results": [
                {"partition": p, "error_code": code} for p in t["partitions"]]} for t in b["topics"]]}
        if n == "TxnOffsetCommit":
            return {"topics": [{"name": t["name"], "partitions": [
                {"partition": p["partition"], "error_code": code} for p in t["partitions"]]}
                for t in b["topics"]]}
        if n == "Metadata":
            return self.metadata_body(self.brokers[req.node], req, topic_error=code)
        raise RuntimeError(f"no error body for {n}")

    # ---- ApiVersions / Metadata ------------------------------------------------------------
    def h_api_versions(self, broker, conn, req, respond):
        respond({"error_code": 0, "api_keys": [
            {"api_key": k, "min_version": lo, "max_version": hi}
            for k, (lo, hi) in sorted(broker.api_versions.items())]})

    def metadata_view(self):
        return {
            # every registered broker is listed, dead or alive (a dead one stays registered
            # until its session expires; a client that only ever heard of brokers that died
            # since could otherwise never find the live ones again - no client re-bootstraps)
            "brokers": sorted(self.brokers),
            "controller": self.controller,
            "topics": {
                t.name: (t.internal, t.authorized, [p.leader for p in t.partitions])
                for t in self.topics.values()
            },
        }

    def metadata_body(self, broker, req, topic_error=None):
        now = self.world.now()
        view = None
        if broker.md_snapshot is not None:
            until, snap = broker.md_snapshot
            if now < until:
                view = snap
                self.world.probe("stale_metadata_served")
            else:
                broker.md_snapshot = None
        if view is None:
            view = self.metadata_view()
        v = req.api_version
        want = req.body["topics"]
        if want is None or (v == 0 and not want):
            names = sorted(view["topics"])
        else:
            names = list(want)
        topics = []
        for name in names:
            ent = view["topics"].get(name)
            if ent is None:
                topics.append({"error_code": UNKNOWN_TOPIC_OR_PARTITION, "name": name,
                               "is_internal": False, "partitions": []})
                continue
            internal, authorized, leaders = ent
            if not authorized:
                topics.append({"error_code": TOPIC_AUTHORIZATION_FAILED, "name": name,
                               "is_internal": internal, "partitions": []})
                continue
            if topic_error:
                topics.append({"error_code": topic_error, "name": name, "is_internal": internal,
                               "partitions": []})
                continue
            parts = []
            for i, leader in enumerate(leaders):
                alive = leader in view["brokers"]
                parts.append({
                    "error_code": 0 if (leader != -1 and alive) else LEADER_NOT_AVAILABLE,
                    "partition": i, "leader": leader if alive else -1,
                    "replicas": [leader] if leader != -1 else [],
                    "isr": [leader] if leader != -1 and alive else [],
                    "offline_replicas": []})
            topics.append({"error_code": 0, "name": name, "is_internal": internal, "partitions": parts})
        return {
            "brokers": [{"node_id": n, "host": self.brokers[n].host, "port": self.brokers[n].port,
                         "rack": None} for n in view["brokers"]],
            "cluster_id": self.cluster_id,
            "controller_id": view["controller"],
            "topics": topics,
        }

    def h_metadata(self, broker, conn, req, respond):
        respond(self.metadata_body(broker, req))

    # ---- Produce ------------------------------------------------------------------------------
    def h_produce(self, broker, conn, req, respond):
        w = self.world
        now = w.now()
        b = req.body
        acks = b["acks"]
        out_topics = []
        txn_id = b.get("transactional_id")
        for t in b["topics"]:
            parts = []
            for p in t["partitions"]:
                code, base, lat, lso = self.produce_partition(
                    broker, conn, req, t["name"], p["partition"], p["records"], txn_id, now)
                parts.append({"partition": p["partition"], "error_code": code, "base_offset": base,
                              "log_append_time": lat, "log_start_offset": lso})
            out_topics.append({"name": t["name"], "partitions": parts})
        if acks == 0:
            respond(None)
        else:
            respond({"topics": out_topics})

    def produce_partition(self, broker, conn, req, topic, index, records, txn_id, now):
        w = self.world
        try:
            batches = recfmt.decode_batches(records or b"", verify_crc=True, allow_partial=False)
        except (RecError, struct.error, Exception) as exc:  # noqa: BLE001
            w.violation("C11", "produced_batch_undecodable",
                        {"tp": [topic, index], "error": repr(exc), "bytes": (records or b"")[:80].hex()})
            return CORRUPT_MESSAGE, -1, -1, -1
        for bt in batches:
            self.produce_ledger.append({
                "seq": req.seq_arrive, "t": now, "node": broker.node_id, "conn": conn.id,
                "client": req.client_id, "corr": req.correlation_id, "tp": (topic, index),
                "pid": bt.pid, "epoch": bt.epoch, "base_seq": bt.base_seq,
                "count": len(bt.records), "hash": zlib.crc32(bt.raw[12:]),
                "values": [r.value for r in bt.records], "transactional": bt.transactional,
                "txn_id": txn_id, "t_write": req.t_write, "seq_write": req.seq_write,
            })
        w.emit("produce_batches", broker, conn, req, (topic, index), batches)
        part = self.partition(topic, index)
        if part is None:
            return UNKNOWN_TOPIC_OR_PARTITION, -1, -1, -1
        if not part.topic.authorized or not part.topic.writable:
            return TOPIC_AUTHORIZATION_FAILED, -1, -1, -1
        if part.leader != broker.node_id:
            return NOT_LEADER, -1, -1, -1
        if len(batches) != 1 or batches[0].magic != 2:
            # the library always sends exactly one v2 batch per partition
            w.violation("C11", "produce_not_single_v2_batch",
                        {"tp": [topic, index], "n": len(batches)})
            return CORRUPT_MESSAGE, -1, -1, -1
        bt = batches[0]
        lat_ms = int(w.loop.clock.time() * 1000) if part.topic.ts_type == 1 else None
        # idempotence / transactions ---------------------------------------------------
        if bt.pid >= 0:
            if not (0 <= bt.base_seq <= INT32_MAX):
                return OUT_OF_ORDER_SEQUENCE, -1, -1, -1
            st = part.pids.get(bt.pid)
            if st is None:
                st = part.pids[bt.pid] = PidState()
                start = self.seq_start.get((req.client_id, (topic, index)))
                if start is not None:
                    st.last_seq = (start - 1) % 2**31 if start != 0 else -1
                    st.epoch = bt.epoch
            if bt.epoch < st.epoch:
                return INVALID_PRODUCER_EPOCH, -1, -1, -1
            last = seq_inc(bt.base_seq, len(bt.records) - 1) if bt.records else bt.base_seq
            if bt.epoch > st.epoch:
                if st.epoch != -1 and bt.base_seq != 0:
                    return OUT_OF_ORDER_SEQUENCE, -1, -1, -1
                if st.epoch != -1:
                    st.ring.clear()
                    st.last_seq = -1
                st.epoch = bt.epoch
            for (b0, b1, off, lat) in st.ring:
                if (b0, b1) == (bt.base_seq, last):
                    w.probe("dedup_hit")
                    return NONE, off, lat if lat is not None else -1, part.log_start
            if st.last_seq == -1:
                ok = bt.base_seq == 0
            else:
                ok = bt.base_seq == seq_inc(st.last_seq, 1)
            if ok:
                pass
            elif self._seq_is_old(st, bt.base_seq):
                w.probe("duplicate_sequence_reply")
                return DUPLICATE_SEQUENCE, -1, -1, -1
            else:
                return OUT_OF_ORDER_SEQUENCE, -1, -1, -1
            if bt.transactional:
                code = self.txns.check_produce(bt, (topic, index), txn_id) if self.txns else NONE
                if code:
                    return code, -1, -1, -1
            elif txn_id is not None:
                pass
        base = part.next_offset
        raw = patch_v2(bt.raw, base, 0, lat_ms)
        part.add_stored(raw, append_ms=lat_ms)
        if bt.pid >= 0:
            st.last_seq = last
            st.ring.append((bt.base_seq, last, base, lat_ms))
        return NONE, base, lat_ms if lat_ms is not None else -1, part.log_start

    @staticmethod
    def _seq_is_old(st, base_seq):
        # "already seen, no longer in the ring": within 2^30 behind last_seq
        d = (st.last_seq - base_seq) % 2**31
        return d < 2**30

    # ---- Fetch ------------------------------------------------------------------------------------
    def h_fetch(self, broker, conn, req, respond):
        w = self.world
        b = req.body
        deadline = w.now() + b["max_wait_ms"] / 1000.0
        state = {"done": False}

        def attempt(final=False):
            if state["done"] or conn.server_closed:
                return
            body, nbytes, has_err = self.fetch_body(broker, req)
            if final or has_err or nbytes >= max(b["min_bytes"], 1) or w.now() >= deadline:
                state["done"] = True
                respond(body)
                return
            # park until data arrives or deadline
            for t in b["topics"]:
                for p in t["partitions"]:
                    part = self.partition(t["topic"], p["partition"])
                    if part is not None:
                        part.waiters.append(lambda: w.later(0, attempt))

        w.later(max(0.0, deadline - w.now()), attempt, True)
        attempt()

    def fetch_body(self, broker, req):
        b = req.body
        v = req.api_version
        iso = b.get("isolation_level", 0)
        total_limit = b.get("max_bytes", 2**31 - 1)
        remaining = total_limit
        nbytes = 0
        has_err = False
        first_nonempty = True
        topics = []
        for t in b["topics"]:
            parts = []
            for p in t["partitions"]:
                part = self.partition(t["topic"], p["partition"])
                ent = {"partition": p["partition"], "error_code": 0, "high_watermark": -1,
                       "last_stable_offset": -1, "log_start_offset": -1,
                       "aborted_transactions": None, "preferred_read_replica": -1, "records": b""}
                parts.append(ent)
                if part is None:
                    ent["error_code"] = UNKNOWN_TOPIC_OR_PARTITION
                    has_err = True
                    continue
                if not part.topic.authorized:
                    ent["error_code"] = TOPIC_AUTHORIZATION_FAILED
                    has_err = True
                    continue
                if part.leader != broker.node_id:
                    ent["error_code"] = NOT_LEADER
                    has_err = True
                    continue
                off = p["fetch_offset"]
                ent["high_watermark"] = part.hw
                ent["last_stable_offset"] = part.lso if v >= 4 else -1
                ent["log_start_offset"] = part.log_start
                if off < part.log_start or off > part.hw:
                    ent["error_code"] = OFFSET_OUT_OF_RANGE
                    has_err = True
                    continue
                bound = part.lso if iso == 1 else part.hw
                limit = min(p["max_bytes"], remaining) if v >= 3 else p["max_bytes"]
                data, upper = self.slice_log(part, off, bound, limit,
                                             allow_oversize=(v >= 3 and first_nonempty),
                                             hard_limit=(v < 3))
                if data:
                    first_nonempty = False
                    remaining = max(0, remaining - len(data))
                    nbytes += len(data)
                if data and getattr(req, "corrupt_once", False):
                    # transient corruption on the way (this response only): one byte of the
                    # last complete v2 batch, behind its checksum field
                    spans = [sp for sp in recfmt.batch_spans(data) if sp[2] >= 2]
                    if len(spans) >= 2 or (spans and getattr(req, "corrupt_any", False)):
                        s_, e_, _m = spans[-1]
                        if e_ - s_ > 70:
                            mb = bytearray(data)
                            mb[e_ - 3] ^= 0x5A
                            data = bytes(mb)
                            req.corrupt_once = False
                            self.world.count_fault("corrupt_once")
                ent["records"] = data
                if iso == 1 and v >= 4:
                    ent["aborted_transactions"] = [
                        {"producer_id": pid, "first_offset": first}
                        for (pid, first, marker) in part.aborted
                        if marker >= off and first < upper]
            topics.append({"topic": t["topic"], "partitions": parts})
        return ({"error_code": 0, "session_id": 0, "topics": topics}, nbytes, has_err)

    def slice_log(self, part, off, bound, limit, allow_oversize, hard_limit=False):
        """Bytes of the log from the batch containing `off`, below `bound`.

        Like a broker, the slice is cut by bytes (a trailing partial batch is
        normal).  Fetch >= v3: the first batch of the first non-empty partition
        is returned whole even if oversize, and an incomplete *first* batch of
        any other partition is replaced by an empty record set (ReplicaManager:
        "consumers can make progress in such cases").  Fetch < v3: the byte
        limit is hard and an incomplete first batch is returned as is."""
        chunks = []
        size = 0
        upper = off
        mode = self.fetch_cut
        for st in part.log:
            if st.last_offset < off:
                continue
            if st.base_offset >= bound:
                break
            n = len(st.raw)
            if size + n <= limit:
                chunks.append(st.raw)
                size += n
                upper = st.last_offset + 1
                continue
            if not chunks and allow_oversize:
                chunks.append(st.raw)
                size += n
                upper = st.last_offset + 1
                self.world.probe("fetch_oversize_first_batch")
                break
            if not chunks and not hard_limit:
                break
            if (mode == "bytes" or not chunks) and limit - size > 0:
                chunks.append(st.raw[:limit - size])
                size = limit
                self.world.probe("fetch_trailing_partial")
            break
        return b"".join(chunks), upper

    # ---- ListOffsets ------------------------------------------------------------------------------------
    def h_list_offsets(self, broker, conn, req, respond):
        b = req.body
        v = req.api_version
        iso = b.get("isolation_level", 0)
        topics = []
        for t in b["topics"]:
            parts = []
            for p in t["partitions"]:
                part = self.partition(t["topic"], p["partition"])
                ent = {"partition": p["partition"], "error_code": 0, "offsets": [], "timestamp": -1,
                       "offset": -1}
                parts.append(ent)
                if part is None:
                    ent["error_code"] = UNKNOWN_TOPIC_OR_PARTITION
                    continue
                if part.leader != broker.node_id:
                    ent["error_code"] = NOT_LEADER
                    continue
                ts = p["timestamp"]
                if ts == -1:
                    off = part.lso if iso == 1 else part.hw
                    rts = -1
                elif ts == -2:
                    off = part.log_start
                    rts = -1
                else:
                    off, rts = -1, -1
                    bound = part.lso if iso == 1 else part.hw
                    for st in part.log:
                        hit = None
                        for r in st.batch.records:
                            if r.offset >= bound or r.offset < part.log_start:
                                continue
                            if r.timestamp is not None and r.timestamp >= ts:
                                hit = r
                                break
                        if hit is not None:
                            off, rts = hit.offset, hit.timestamp
                            break
                ent["offset"] = off
                ent["timestamp"] = rts
                ent["offsets"] = [off] if off >= 0 else []
                self.world.emit("list_offsets_reply", broker, conn, req,
                                (t["topic"], p["partition"]), ts, off)
            topics.append({"topic": t["topic"], "partitions": parts})
        respond({"topics": topics})

    # ---- FindCoordinator ---------------------------------------------------------------------------------
    def h_find_coordinator(self, broker, conn, req, respond):
        b = req.body
        ctype = b.get("key_type", 0)
        node = self.coordinator_for(ctype, b["key"])
        br = self.brokers[node]
        if not br.up:
            respond({"error_code": COORDINATOR_NOT_AVAILABLE, "error_message": None, "node_id": -1,
                     "host": "", "port": -1})
            return
        respond({"error_code": 0, "error_message": None, "node_id": node, "host": br.host,
                 "port": br.port})

    def coordinator_check(self, broker, ctype, key):
        """Error code a coordinator request to `broker` gets, or 0."""
        node = self.coordinator_for(ctype, key)
        if node != broker.node_id:
            return NOT_COORDINATOR
        until = self.coordinator_loading.get(node)
        if until is not None:
            if self.world.now() < until:
                self.world.probe("coordinator_loading_served")
                return COORDINATOR_LOAD_IN_PROGRESS
            del self.coordinator_loading[node]
        return 0

    # ---- SASL ----------------------------------------------------------------------------------------------
    def h_sasl_handshake(self, broker, conn, req, respond):
        mech = req.body["mechanism"]
        srv = broker.sasl
        if srv is None or mech not in srv.mechanisms:
            respond({"error_code": UNSUPPORTED_SASL_MECHANISM,
                     "mechanisms": list(srv.mechanisms) if srv else []})
            return
        conn.srv_state["sasl"] = srv.new_session(mech, conn)
        if req.api_version == 0:
            conn.raw_mode = True
        respond({"error_code": 0, "mechanisms": list(srv.mechanisms)})

    def h_sasl_authenticate(self, broker, conn, req, respond):
        sess = conn.srv_state.get("sasl")
        if sess is None:
            respond({"error_code": ILLEGAL_SASL_STATE, "error_message": "no handshake",
                     "auth_bytes": b"", "session_lifetime_ms": 0})
            return
        ok, out, done = sess.step(req.body["auth_bytes"])
        if not ok:
            respond({"error_code": SASL_AUTHENTICATION_FAILED, "error_message": "auth failed",
                     "auth_bytes": b"", "session_lifetime_ms": 0})
            return
        respond({"error_code": 0, "error_message": None, "auth_bytes": out, "session_lifetime_ms": 0})

    def sasl_raw(self, broker, conn, payload):
        sess = conn.srv_state.get("sasl")
        w = self.world
        ok, out, done = sess.step(payload)
        if not ok:
            conn.server_close("eof")
            return
        if done:
            conn.raw_mode = False
        data = struct.pack(">i", len(out)) + out
        w.later(w.rng.uniform(0, self.service_time, "svc", conn.id), self._send_raw, conn, data)

    def _send_raw(self, conn, data):
        if conn.server_closed:
            return
        conn.send(data, tag=("raw", None))
        conn.request_done()
