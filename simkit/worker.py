"""Worker process: executes plans for one property.  Started as a fresh
interpreter by the driver with PYTHONPATH=<overlay>:/verif and an explicit
PYTHONHASHSEED.  Protocol: JSON lines on stdin -> JSON lines on stdout."""
from __future__ import annotations

import faulthandler
import json
import os
import sys


def main():
    faulthandler.enable()
    from simkit import patch
    patch.install()
    import aiokafka  # noqa: F401  (after the clock patch)
    patch.post_import()
    import props

    overlay = os.environ.get("VERIF_OVERLAY")
    if overlay and not os.path.abspath(aiokafka.__file__).startswith(os.path.abspath(overlay)):
        print(json.dumps({"fatal": f"aiokafka imported from {aiokafka.__file__}, not {overlay}"}),
              flush=True)
        return 2
    out = sys.stdout
    real = patch.REAL_PERF
    for line in sys.stdin:
        line = line.strip()
        if not line:
            continue
        job = json.loads(line)
        cmd = job["cmd"]
        if cmd == "exit":
            break
        if cmd == "batch":
            mod = props.get(job["prop"])
            per_run = job.get("timeout", 120)
            for idx in job["indices"]:
                faulthandler.dump_traceback_later(per_run, exit=True)
                t0 = real()
                try:
                    plan = mod.gen_plan(job["seed"], idx, job["tier"])
                    res = mod.execute(plan)
                except Exception as exc:  # noqa: BLE001
                    import traceback
                    res = {"status": "worker_exception", "detail": traceback.format_exc()[-3000:],
                           "violations": [], "digest": None, "sig": None}
                    plan = None
                faulthandler.cancel_dump_traceback_later()
                res["i"] = idx
                res["wall"] = real() - t0
                if job.get("want_plan") or res.get("violations") or res.get("status") != "ok":
                    res["plan"] = plan
                out.write(json.dumps(res, default=_default) + "\n")
                out.flush()
            out.write(json.dumps({"batch_done": True}) + "\n")
            out.flush()
        elif cmd == "plan":
            mod = props.get(job["plan"]["prop"])
            faulthandler.dump_traceback_later(job.get("timeout", 120), exit=True)
            t0 = real()
            try:
                res = mod.execute(job["plan"])
            except Exception:  # noqa: BLE001
                import traceback
                res = {"status": "worker_exception", "detail": traceback.format_exc()[-3000:],
                       "violations": [], "digest": None, "sig": None}
            faulthandler.cancel_dump_traceback_later()
            res["wall"] = real() - t0
            res["tag"] = job.get("tag")
            out.write(json.dumps(res, default=_default) + "\n")
            out.flush()
    return 0


def _default(o):
    if isinstance(o, (bytes, bytearray)):
        return o.hex()
    if isinstance(o, (set, frozenset)):
        return sorted(map(str, o))
    return repr(o)


if __name__ == "__main__":
    sys.exit(main())
