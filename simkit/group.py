"""Group coordinator model (DESIGN.md App. A.2): the Kafka consumer-group
state machine, offset storage, and a ledger of everything that happened."""
from __future__ import annotations

from .cluster import (
    COORDINATOR_LOAD_IN_PROGRESS, COORDINATOR_NOT_AVAILABLE, FENCED_INSTANCE_ID, GROUP_AUTHORIZATION_FAILED,
    ILLEGAL_GENERATION, INCONSISTENT_GROUP_PROTOCOL, INVALID_SESSION_TIMEOUT, MEMBER_ID_REQUIRED,
    NOT_COORDINATOR, REBALANCE_IN_PROGRESS, UNKNOWN_MEMBER_ID,
)

EMPTY, PREPARING, COMPLETING, STABLE = "Empty", "PreparingRebalance", "CompletingRebalance", "Stable"


class Member:
    def __init__(self, mid, client_id, instance_id, session_timeout, rebalance_timeout, protocols):
        self.id = mid
        self.client_id = client_id
        self.instance_id = instance_id
        self.session_timeout = session_timeout
        self.rebalance_timeout = rebalance_timeout
        self.protocols = protocols  # list of (name, metadata)
        self.assignment = b""
        self.join_cb = None  # (respond, req, conn)
        self.sync_cb = None
        self.deadline = None
        self.timer = None
        self.is_new = True
        self.last_contact = 0.0


class Group:
    def __init__(self, name):
        self.name = name
        self.state = EMPTY
        self.generation = 0
        self.protocol = None
        self.protocol_type = None
        self.leader = None
        self.members = {}
        self.pending = {}  # member_id -> expiry timer (MEMBER_ID_REQUIRED)
        self.static = {}  # instance id -> member id
        self.join_timer = None
        self.next_member = 0
        self.gen_changed_at = 0.0


class GroupCoordinatorModel:
    def __init__(self, cluster):
        self.cluster = cluster
        self.world = cluster.world
        cluster.groups = self
        self.groups = {}
        self.ledger = []  # dicts, in order
        self.generations = []  # dicts: group, generation, members{id: {proto: md}}, protocol, leader
        self.initial_delay = 0.0
        self.session_bounds = (1, 10**9)
        self.hb_completing_rebalance_in_progress = False
        self.unauthorized = set()
        cluster.handlers.update({
            "JoinGroup": self.h_join,
            "SyncGroup": self.h_sync,
            "Heartbeat": self.h_heartbeat,
            "LeaveGroup": self.h_leave,
            "OffsetCommit": self.h_offset_commit,
            "OffsetFetch": self.h_offset_fetch,
        })

    # ------------------------------------------------------------------ helpers
    def _g(self, name):
        g = self.groups.get(name)
        if g is None:
            g = self.groups[name] = Group(name)
        return g

    def led(self, kind, **kw):
        w = self.world
        kw["kind"] = kind
        kw["t"] = w.now()
        kw["seq"] = w.log.add(w.now(), "grp", kind, kw.get("group"), kw.get("member"),
                              kw.get("generation"), kw.get("code"))
        self.ledger.append(kw)
        return kw

    def _touch(self, g, m):
        w = self.world
        m.last_contact = w.now()
        if m.timer is not None:
            m.timer.cancel()
        m.deadline = w.now() + m.session_timeout
        m.timer = w.later(m.session_timeout, self._session_check, g, m)

    def _session_check(self, g, m):
        if g.members.get(m.id) is not m:
            return
        if m.join_cb is not None or m.sync_cb is not None:
            # awaiting join/sync completion counts as alive
            m.timer = self.world.later(m.session_timeout, self._session_check, g, m)
            return
        self.world.probe("session_expired")
        self.led("expire", group=g.name, member=m.id, generation=g.generation)
        self._remove_member(g, m, "expire")

    def expire_member(self, group, client_id):
        """Fault: expire the session of the member owned by client_id now."""
        g = self.groups.get(group)
        if g is None:
            return False
        for m in list(g.members.values()):
            if m.client_id == client_id and m.join_cb is None and m.sync_cb is None:
                self.led("expire", group=g.name, member=m.id, generation=g.generation, forced=True)
                self._remove_member(g, m, "expire")
                return True
        return False

    def _remove_member(self, g, m, why):
        if m.timer is not None:
            m.timer.cancel()
        g.members.pop(m.id, None)
        if m.instance_id and g.static.get(m.instance_id) == m.id:
            del g.static[m.instance_id]
        if m.join_cb is not None:
            m.join_cb = None
        if g.state in (STABLE, COMPLETING):
            self._prepare_rebalance(g, why)
        elif g.state == PREPARING:
            self._maybe_complete_join(g)

    # ------------------------------------------------------------------ rebalance machinery
    def _prepare_rebalance(self, g, why):
        w = self.world
        if g.state == COMPLETING:
            for m in g.members.values():
                if m.sync_cb is not None:
                    respond, req = m.sync_cb
                    m.sync_cb = None
                    self.led("sync_resp", group=g.name, member=m.id, generation=g.generation,
                             code=REBALANCE_IN_PROGRESS)
                    respond({"error_code": REBALANCE_IN_PROGRESS, "assignment": b""})
        prev = g.state
        g.state = PREPARING
        self.led("prepare_rebalance", group=g.name, generation=g.generation, why=why)
        if g.join_timer is not None:
            g.join_timer.cancel()
        if prev == EMPTY:
            delay = self.initial_delay
        else:
            delay = max([m.rebalance_timeout for m in g.members.values()] or [0.0])
        g.join_timer = w.later(delay, self._join_deadline, g)
        if prev != EMPTY:
            self._maybe_complete_join(g)

    def _maybe_complete_join(self, g):
        if g.state != PREPARING:
            return
        if g.members and all(m.join_cb is not None for m in g.members.values()):
            # every known member has rejoined: no need to wait for the timeout,
            # except during the initial delay of a fresh group
            if g.join_timer is not None and getattr(g, "_initial", False):
                return
            self._complete_join(g)
        elif not g.members:
            self._complete_join(g)

    def _join_deadline(self, g):
        g.join_timer = None
        g._initial = False
        if g.state == PREPARING:
            self._complete_join(g)

    def _complete_join(self, g):
        w = self.world
        if g.join_timer is not None:
            g.join_timer.cancel()
            g.join_timer = None
        g._initial = False
        for m in list(g.members.values()):
            if m.join_cb is None:
                self.led("evict_not_rejoined", group=g.name, member=m.id, generation=g.generation)
                w.probe("evicted_by_rebalance_timeout")
                if m.timer is not None:
                    m.timer.cancel()
                del g.members[m.id]
                if m.instance_id and g.static.get(m.instance_id) == m.id:
                    del g.static[m.instance_id]
        g.generation += 1
        g.gen_changed_at = w.now()
        if not g.members:
            g.state = EMPTY
            g.protocol = None
            g.leader = None
            self.led("generation", group=g.name, generation=g.generation, members=[], protocol=None)
            self.generations.append({"group": g.name, "generation": g.generation, "members": {},
                                     "protocol": None, "leader": None, "t": w.now(),
                                     "assignments": None})
            return
        # protocol selection: candidates supported by all, most first-choice votes
        cands = None
        for m in g.members.values():
            names = [n for n, _ in m.protocols]
            cands = set(names) if cands is None else cands & set(names)
        votes = {}
        order = []
        for mid in sorted(g.members):
            m = g.members[mid]
            for n, _ in m.protocols:
                if n in cands:
                    votes[n] = votes.get(n, 0) + 1
                    if n not in order:
                        order.append(n)
                    break
        g.protocol = max(order, key=lambda n: (votes[n], -order.index(n)))
        if g.leader not in g.members:
            g.leader = sorted(g.members)[0]
        g.state = COMPLETING
        members_md = {mid: dict(m.protocols)[g.protocol] for mid, m in g.members.items()}
        self.generations.append({"group": g.name, "generation": g.generation, "members": members_md,
                                 "protocol": g.protocol, "leader": g.leader, "t": w.now(),
                                 "assignments": None,
                                 "clients": {mid: m.client_id for mid, m in g.members.items()}})
        self.led("generation", group=g.name, generation=g.generation, members=sorted(g.members),
                 protocol=g.protocol, leader=g.leader)
        for mid in sorted(g.members):
            m = g.members[mid]
            respond, req = m.join_cb
            m.join_cb = None
            m.is_new = False
            m.assignment = b""
            self._touch(g, m)
            self._join_reply(g, m, respond, req)

    def _join_reply(self, g, m, respond, req):
        v = req.api_version
        members = []
        if m.id == g.leader:
            for mid in sorted(g.members):
                mm = g.members[mid]
                members.append({"member_id": mid, "group_instance_id": mm.instance_id,
                                "metadata": dict(mm.protocols)[g.protocol]})
        self.led("join_resp", group=g.name, member=m.id, generation=g.generation, code=0,
                 leader=g.leader, client=m.client_id, protocol=g.protocol, version=v,
                 conn=getattr(getattr(req, "conn", None), "id", None), corr=req.correlation_id)
        respond({"error_code": 0, "generation_id": g.generation, "protocol_name": g.protocol,
                 "leader": g.leader, "member_id": m.id, "members": members})

    # ------------------------------------------------------------------ JoinGroup
    def h_join(self, broker, conn, req, respond):
        b = req.body
        w = self.world
        v = req.api_version
        name = b["group"]
        protos = [(p["name"], p["metadata"]) for p in b["protocols"]]
        self.led("join_req", group=name, member=b["member_id"], client=req.client_id,
                 protocols=[n for n, _ in protos], metadata=dict(protos), version=v,
                 session=b["session_timeout_ms"], rebalance=b.get("rebalance_timeout_ms"),
                 instance=b.get("group_instance_id"), t_write=req.t_write, seq_write=req.seq_write)

        def err(code, member_id=None):
            self.led("join_resp", group=name, member=b["member_id"], code=code, client=req.client_id,
                     assigned_member=member_id)
            respond({"error_code": code, "generation_id": -1, "protocol_name": "", "leader": "",
                     "member_id": member_id if member_id is not None else b["member_id"],
                     "members": []})

        if name in self.unauthorized:
            return err(GROUP_AUTHORIZATION_FAILED)
        code = self.cluster.coordinator_check(broker, 0, name)
        if code:
            return err(code)
        st = b["session_timeout_ms"]
        if not self.session_bounds[0] <= st <= self.session_bounds[1]:
            return err(INVALID_SESSION_TIMEOUT)
        g = self._g(name)
        mid = b["member_id"]
        inst = b.get("group_instance_id")
        session = st / 1000.0
        rebalance = (b.get("rebalance_timeout_ms") or st) / 1000.0
        if g.members and g.protocol_type is not None and b["protocol_type"] != g.protocol_type:
            return err(INCONSISTENT_GROUP_PROTOCOL)
        if g.members:
            common = None
            for m in g.members.values():
                if m.id == mid:
                    continue
                s = {n for n, _ in m.protocols}
                common = s if common is None else common & s
            if common is not None and not (common & {n for n, _ in protos}):
                return err(INCONSISTENT_GROUP_PROTOCOL)
        if mid == "":
            if inst and inst in g.static:
                # static member rejoining with a fresh connection: swap identity
                old = g.members.get(g.static[inst])
                new_id = self._new_member_id(g, req.client_id)
                w.probe("static_member_replaced")
                if old is not None:
                    if old.timer is not None:
                        old.timer.cancel()
                    del g.members[old.id]
                    m = Member(new_id, req.client_id, inst, session, rebalance, protos)
                    m.assignment = old.assignment
                    m.is_new = False
                    g.members[new_id] = m
                    g.static[inst] = new_id
                    if g.leader == old.id:
                        g.leader = new_id
                    self._touch(g, m)
                    same = [n for n, _ in old.protocols] == [n for n, _ in protos] and \
                        dict(old.protocols) == dict(protos)
                    if g.state == STABLE and same:
                        if g.leader == new_id:
                            # Brokers without KIP-814 answer a replaced static *leader* with the
                            # cached generation and ignore the assignment it computes: partitions
                            # it has just discovered stay unassigned until the next rebalance,
                            # whatever the client does.  Oracles need to know.
                            g.quiet_leader_swaps = getattr(g, "quiet_leader_swaps", 0) + 1
                            g.quiet_swap_generations = getattr(g, "quiet_swap_generations", set()) | {g.generation}
                            w.probe("static_leader_replaced_without_rebalance")
                        return self._join_reply(g, m, respond, req)
                    m.join_cb = (respond, req)
                    if g.state in (STABLE, COMPLETING):
                        self._prepare_rebalance(g, "static_rejoin")
                    else:
                        self._maybe_complete_join(g)
                    return
            if v >= 4 and not inst:
                new_id = self._new_member_id(g, req.client_id)
                g.pending[new_id] = w.later(session, lambda: g.pending.pop(new_id, None))
                w.probe("member_id_required")
                return err(MEMBER_ID_REQUIRED, new_id)
            new_id = self._new_member_id(g, req.client_id)
            return self._admit(g, new_id, req, respond, inst, session, rebalance, protos, b)
        if mid in g.pending:
            t = g.pending.pop(mid)
            t.cancel()
            return self._admit(g, mid, req, respond, inst, session, rebalance, protos, b)
        m = g.members.get(mid)
        if m is None:
            if inst and inst in g.static and g.static[inst] != mid:
                return err(FENCED_INSTANCE_ID)
            return err(UNKNOWN_MEMBER_ID)
        self._touch(g, m)
        changed = m.protocols != protos
        m.session_timeout = session
        m.rebalance_timeout = rebalance
        if g.state == PREPARING:
            m.protocols = protos
            m.join_cb = (respond, req)
            self._maybe_complete_join(g)
        elif g.state == COMPLETING:
            if not changed:
                self._join_reply(g, m, respond, req)
            else:
                m.protocols = protos
                m.join_cb = (respond, req)
                self._prepare_rebalance(g, "metadata_changed")
        elif g.state == STABLE:
            if m.id == g.leader or changed:
                m.protocols = protos
                m.join_cb = (respond, req)
                self._prepare_rebalance(g, "leader_rejoin" if not changed else "metadata_changed")
            else:
                self._join_reply(g, m, respond, req)
        else:
            err(UNKNOWN_MEMBER_ID)

    def _new_member_id(self, g, client_id):
        g.next_member += 1
        return f"{client_id}-m{g.next_member:03d}"

    def _admit(self, g, mid, req, respond, inst, session, rebalance, protos, b):
        m = Member(mid, req.client_id, inst, session, rebalance, protos)
        g.members[mid] = m
        g.protocol_type = b["protocol_type"]
        if inst:
            g.static[inst] = mid
        m.join_cb = (respond, req)
        self._touch(g, m)
        if g.state == EMPTY:
            g._initial = True
            self._prepare_rebalance(g, "first_member")
        elif g.state in (STABLE, COMPLETING):
            self._prepare_rebalance(g, "new_member")
        else:
            self._maybe_complete_join(g)

    # ------------------------------------------------------------------ SyncGroup
    def h_sync(self, broker, conn, req, respond):
        b = req.body
        name = b["group"]
        self.led("sync_req", group=name, member=b["member_id"], generation=b["generation_id"],
                 client=req.client_id, assignments={a["member_id"]: a["assignment"]
                                                    for a in b["assignments"]},
                 t_write=req.t_write, seq_write=req.seq_write)

        def reply(code, assignment=b""):
            self.led("sync_resp", group=name, member=b["member_id"], generation=b["generation_id"],
                     code=code, assignment=assignment, client=req.client_id)
            respond({"error_code": code, "assignment": assignment})

        code = self.cluster.coordinator_check(broker, 0, name)
        if code == COORDINATOR_LOAD_IN_PROGRESS:
            # GroupCoordinator.handleSyncGroup: a loading group tells the member to rejoin
            return reply(REBALANCE_IN_PROGRESS)
        if code:
            return reply(code)
        g = self.groups.get(name)
        if g is None or b["member_id"] not in g.members:
            return reply(UNKNOWN_MEMBER_ID)
        m = g.members[b["member_id"]]
        if b["generation_id"] != g.generation:
            return reply(ILLEGAL_GENERATION)
        self._touch(g, m)
        if g.state == PREPARING:
            return reply(REBALANCE_IN_PROGRESS)
        if g.state == COMPLETING:
            m.sync_cb = (respond, req)
            if m.id == g.leader:
                given = {a["member_id"]: a["assignment"] for a in b["assignments"]}
                for mm in g.members.values():
                    mm.assignment = given.get(mm.id, b"")
                for gen in reversed(self.generations):
                    if gen["group"] == name and gen["generation"] == g.generation:
                        gen["assignments"] = {mid: mm.assignment for mid, mm in g.members.items()}
                        break
                g.state = STABLE
                self.led("stable", group=name, generation=g.generation)
                for mid in sorted(g.members):
                    mm = g.members[mid]
                    if mm.sync_cb is not None:
                        cb, _ = mm.sync_cb
                        mm.sync_cb = None
                        self._touch(g, mm)
                        self.led("sync_resp", group=name, member=mm.id, generation=g.generation,
                                 code=0, assignment=mm.assignment, client=mm.client_id)
                        cb({"error_code": 0, "assignment": mm.assignment})
            return
        if g.state == STABLE:
            return reply(0, m.assignment)
        reply(UNKNOWN_MEMBER_ID)

    # ------------------------------------------------------------------ Heartbeat / Leave
    def h_heartbeat(self, broker, conn, req, respond):
        b = req.body
        name = b["group"]

        def reply(code):
            self.led("hb", group=name, member=b["member_id"], generation=b["generation_id"],
                     code=code, client=req.client_id)
            respond({"error_code": code})

        code = self.cluster.coordinator_check(broker, 0, name)
        if code == COORDINATOR_LOAD_IN_PROGRESS:
            # GroupCoordinator.handleHeartbeat: "the group is still loading, so
            # respond blindly" with NONE
            return reply(0)
        if code:
            return reply(code)
        g = self.groups.get(name)
        if g is None or g.state == EMPTY or b["member_id"] not in g.members:
            return reply(UNKNOWN_MEMBER_ID)
        m = g.members[b["member_id"]]
        if b["generation_id"] != g.generation:
            return reply(ILLEGAL_GENERATION)
        self._touch(g, m)
        if g.state == PREPARING:
            return reply(REBALANCE_IN_PROGRESS)
        if g.state == COMPLETING and self.hb_completing_rebalance_in_progress:
            return reply(REBALANCE_IN_PROGRESS)
        reply(0)

    def h_leave(self, broker, conn, req, respond):
        b = req.body
        name = b["group"]

        def reply(code):
            self.led("leave", group=name, member=b["member_id"], code=code, client=req.client_id)
            respond({"error_code": code})

        code = self.cluster.coordinator_check(broker, 0, name)
        if code:
            return reply(code)
        g = self.groups.get(name)
        if g is None or b["member_id"] not in g.members:
            if g is not None and b["member_id"] in g.pending:
                g.pending.pop(b["member_id"]).cancel()
                return reply(0)
            return reply(UNKNOWN_MEMBER_ID)
        m = g.members[b["member_id"]]
        reply(0)
        self._remove_member(g, m, "leave")

    # ------------------------------------------------------------------ offsets
    def h_offset_commit(self, broker, conn, req, respond):
        b = req.body
        name = b["group"]
        w = self.world

        def reply(code):
            for t in b["topics"]:
                for p in t["partitions"]:
                    self.led("commit", group=name, member=b["member_id"],
                             generation=b["generation_id"], code=code, client=req.client_id,
                             tp=(t["name"], p["partition"]), offset=p["offset"],
                             t_write=req.t_write, seq_write=req.seq_write)
            respond({"topics": [{"name": t["name"], "partitions": [
                {"partition": p["partition"], "error_code": code} for p in t["partitions"]]}
                for t in b["topics"]]})

        if name in self.unauthorized:
            return reply(GROUP_AUTHORIZATION_FAILED)
        code = self.cluster.coordinator_check(broker, 0, name)
        if code:
            return reply(code)
        g = self.groups.get(name)
        gen = b["generation_id"]
        mid = b["member_id"]
        if gen < 0 and mid == "":
            if g is not None and g.state != EMPTY:
                return reply(ILLEGAL_GENERATION if g.members else UNKNOWN_MEMBER_ID)
        else:
            if g is None or mid not in g.members:
                return reply(UNKNOWN_MEMBER_ID)
            if gen != g.generation:
                w.probe("commit_illegal_generation")
                return reply(ILLEGAL_GENERATION)
            if g.state == COMPLETING:
                return reply(REBALANCE_IN_PROGRESS)
            self._touch(g, g.members[mid])
        store = self.cluster.group_offsets.setdefault(name, {})
        for t in b["topics"]:
            for p in t["partitions"]:
                store[(t["name"], p["partition"])] = (p["offset"], p["metadata"])
        reply(0)

    def h_offset_fetch(self, broker, conn, req, respond):
        b = req.body
        name = b["group"]
        v = req.api_version
        code = 0
        if name in self.unauthorized:
            code = GROUP_AUTHORIZATION_FAILED
        else:
            code = self.cluster.coordinator_check(broker, 0, name)
        store = self.cluster.group_offsets.get(name, {})
        topics = []
        want = b["topics"]
        if want is None:
            bytopic = {}
            for (t, p) in sorted(store):
                bytopic.setdefault(t, []).append(p)
            want = [{"name": t, "partitions": ps} for t, ps in bytopic.items()]
        for t in want:
            parts = []
            for p in t["partitions"]:
                if code:
                    parts.append({"partition": p, "offset": -1, "metadata": "", "error_code": code})
                    continue
                om = store.get((t["name"], p))
                if om is None:
                    parts.append({"partition": p, "offset": -1, "metadata": "", "error_code": 0})
                else:
                    parts.append({"partition": p, "offset": om[0], "metadata": om[1] or "",
                                  "error_code": 0})
                self.world.emit("offset_fetch_reply", req, name, (t["name"], p),
                                om[0] if om else -1)
            topics.append({"name": t["name"], "partitions": parts})
        self.led("offset_fetch", group=name, client=req.client_id, code=code)
        if code and v >= 2:
            respond({"topics": [], "error_code": code})
        else:
            respond({"topics": topics, "error_code": code})

    # ------------------------------------------------------------------ environment
    def on_conn_closed(self, conn):
        for g in self.groups.values():
            for m in g.members.values():
                for attr in ("join_cb", "sync_cb"):
                    cb = getattr(m, attr)
                    if cb is not None and getattr(cb[1], "conn", None) is conn:
                        # the parked response can no longer be delivered; the member
                        # itself stays until its session expires
                        setattr(m, attr, (lambda body: None, cb[1]))

    def on_coordinator_move(self, name, keep_state):
        g = self.groups.get(name)
        if g is None:
            return
        for m in g.members.values():
            if m.join_cb is not None:
                respond, req = m.join_cb
                m.join_cb = None
                respond({"error_code": NOT_COORDINATOR, "generation_id": -1, "protocol_name": "",
                         "leader": "", "member_id": m.id, "members": []})
            if m.sync_cb is not None:
                respond, req = m.sync_cb
                m.sync_cb = None
                respond({"error_code": NOT_COORDINATOR, "assignment": b""})
        if not keep_state or g.state in (PREPARING, COMPLETING):
            for m in g.members.values():
                if m.timer is not None:
                    m.timer.cancel()
            g.members.clear()
            g.static.clear()
            if g.join_timer is not None:
                g.join_timer.cancel()
                g.join_timer = None
            g.state = EMPTY
            g.leader = None
            self.world.probe("coordinator_move_lost_members")
            self.led("group_state_lost", group=name, generation=g.generation)
        else:
            for m in g.members.values():
                self._touch(g, m)


_ = COORDINATOR_NOT_AVAILABLE
