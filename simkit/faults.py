"""Fault engine: plan-described faults triggered by protocol events or times."""
from __future__ import annotations


REQUEST_ACTIONS = {"drop_before_apply", "drop_after_apply", "lose_response", "reply_error",
                   "delay", "reset_at_byte", "corrupt_once"}


class FaultEngine:
    def __init__(self, world, faults):
        self.world = world
        world.faults = self
        self.faults = []
        for i, f in enumerate(faults or []):
            f = dict(f)
            f["_i"] = i
            f["_n"] = 0
            f["_fired"] = False
            self.faults.append(f)
        self.req_faults = [f for f in self.faults if "request" in f["on"]]
        self.event_faults = sorted((f for f in self.faults if "event" in f["on"]),
                                   key=lambda f: f["on"]["event"])
        for f in self.faults:
            if "at" in f["on"]:
                world.at(f["on"]["at"], self._fire_env, f)
        if self.event_faults:
            prev = world.loop.on_event

            def on_event(k, prev=prev):
                if prev is not None:
                    prev(k)
                while self.event_faults and self.event_faults[0]["on"]["event"] <= k:
                    f = self.event_faults.pop(0)
                    self._fire_env(f)

            world.loop.on_event = on_event
        self.fired_log = []

    # ------------------------------------------------------------------------------
    def match_request(self, broker, conn, req):
        action = None
        for f in self.req_faults:
            if f["_fired"]:
                continue
            trig = f["on"]
            if trig["request"] != req.name and trig["request"] != "*":
                continue
            if "node" in trig and trig["node"] != broker.node_id:
                continue
            if "client" in trig and trig["client"] != req.client_id:
                continue
            f["_n"] += 1
            if f["_n"] != trig.get("nth", 1):
                continue
            f["_fired"] = True
            do = f["do"]
            name, arg = _split(do)
            self.fired_log.append((self.world.now(), f["_i"], name, req.name, req.nth))
            self.world.log.add(self.world.now(), "fault", f["_i"], name, req.name, req.correlation_id)
            if name in REQUEST_ACTIONS:
                if action is None:
                    if name in ("drop_before_apply", "drop_after_apply"):
                        action = (name, arg or "eof")
                    elif name == "lose_response":
                        action = (name,)
                    else:
                        action = (name, arg)
            elif name == "broker_failover" and arg[0] == "serving_then":
                # the broker answers this request normally and dies arg[2] seconds later
                self.world.later(arg[2], self._apply_env, name, [broker.node_id, arg[1]])
            elif name == "broker_failover" and arg[0] in ("serving", "serving_after"):
                # the broker serving this request dies: before looking at it, or after applying
                # it and before answering
                if arg[0] == "serving":
                    self._apply_env(name, [broker.node_id, arg[1]])
                else:
                    if action is None:
                        action = ("lose_response",)
                    cl = self.world.cluster
                    self.world.later(max(2 * cl.service_time, 0.001), self._apply_env, name,
                                     [broker.node_id, arg[1]])
            else:
                self._apply_env(name, arg)
        return action

    def _fire_env(self, f):
        if f["_fired"]:
            return
        f["_fired"] = True
        name, arg = _split(f["do"])
        self.fired_log.append((self.world.now(), f["_i"], name, None, None))
        self.world.log.add(self.world.now(), "fault", f["_i"], name)
        self._apply_env(name, arg)

    # ------------------------------------------------------------------------------
    def _apply_env(self, name, arg):
        w = self.world
        cl = w.cluster
        now = w.now()
        if name == "leader_move":
            topic, idx, node = arg
            if node in cl.brokers and cl.brokers[node].up:  # (nobody elects a dead broker)
                cl.move_leader(topic, idx, node)
                w.count_fault(name)
        elif name == "leader_unavailable":
            topic, idx, d = arg
            p = cl.partition(topic, idx)
            if p is not None and p.leader != -1:
                old = p.leader
                cl.move_leader(topic, idx, -1)
                w.later(d, self._restore_leader, topic, idx, old)
                w.count_fault(name, now + d)
        elif name == "stale_metadata":
            node, d = arg
            if node in cl.brokers:
                cl.brokers[node].md_snapshot = (now + d, cl.metadata_view())
                w.count_fault(name, now + d)
        elif name == "broker_down":
            node, d = arg
            br = cl.brokers.get(node)
            if br is not None and br.up:
                br.go_down()
                w.later(d, br.go_up)
                w.count_fault(name, now + d)
        elif name == "broker_failover":
            # a broker dies: connections reset, it stays away for d seconds, and every role it
            # had (partition leader, group / transaction coordinator) is taken over by another
            # broker for good (with one broker this is a plain outage)
            node, d = arg
            br = cl.brokers.get(node)
            if br is not None and br.up:
                others = [n for n in sorted(cl.brokers) if n != node and cl.brokers[n].up]
                if d > 1000 and (not others or getattr(cl, "perma_dead", 0) >= len(cl.brokers) - 1):
                    d = 3.0  # (one broker at least survives)
                if d > 1000:
                    cl.perma_dead = getattr(cl, "perma_dead", 0) + 1
                if not others:
                    # nobody left to take over: a total outage, kept short (clients poll the
                    # cluster for metadata without backoff all the while)
                    d = min(d, 1.0)
                br.go_down()
                w.later(d, br.go_up)
                if others:
                    pick = lambda *k: others[int(w.rng.next("failover", *k) * len(others))]  # noqa: E731
                    for (ctype, key), cur in sorted(cl.coordinators.items(), key=repr):
                        if cur == node:
                            new = pick(ctype, key)
                            cl.coordinators[(ctype, key)] = new
                            w.log.add(now, "coordinator_move", ctype, key, cur, new, True)
                            if ctype == 0 and cl.groups is not None:
                                cl.groups.on_coordinator_move(key, True)
                    for tname in sorted(cl.topics):
                        for part in cl.topics[tname].partitions:
                            if part.leader == node:
                                cl.move_leader(tname, part.index, pick(tname, part.index))
                # once another broker has taken the roles over the cluster is whole again: how
                # long the dead one stays away no longer matters to anybody's progress
                w.count_fault(name, now if (others and d > 1000) else now + d)
        elif name == "blackhole":
            node, d = arg
            br = cl.brokers.get(node)
            if br is not None and not br.blackhole:
                br.blackhole = True
                for c in list(br.conns):
                    c.stalled = True
                w.later(d, self._unblackhole, br)
                w.count_fault(name, now + d + cl.max_request_timeout)
        elif name == "coordinator_move":
            ctype, key, keep = arg
            cur = cl.coordinator_for(ctype, key)
            nodes = [n for n in sorted(cl.brokers) if n != cur and cl.brokers[n].up]
            if nodes:
                new = nodes[int(w.rng.next("coordmove") * len(nodes))]
                cl.coordinators[(ctype, key)] = new
                w.log.add(now, "coordinator_move", ctype, key, cur, new, keep)
                if ctype == 0 and cl.groups is not None:
                    cl.groups.on_coordinator_move(key, keep)
                w.count_fault(name)
        elif name == "coordinator_loading":
            node, d = arg
            cl.coordinator_loading[node] = now + d
            w.count_fault(name, now + d)
        elif name == "wall_clock_jump":
            w.loop.clock.wall_offset += arg
            w.count_fault(name)
        elif name == "session_expire":
            if cl.groups is not None and cl.groups.expire_member(*arg):
                w.count_fault(name)
        elif name in ("kill", "stall", "stop", "restart", "topic_create", "partitions_grow",
                      "custom"):
            w.emit("client_fault", name, arg)
        else:
            raise ValueError(f"unknown fault action {name}")

    def _restore_leader(self, topic, idx, old):
        p = self.world.cluster.partition(topic, idx)
        if p is not None and p.leader == -1:
            cl = self.world.cluster
            if not cl.brokers[old].up:
                # the former leader died meanwhile: the election picks a live broker
                up = [n for n in sorted(cl.brokers) if cl.brokers[n].up]
                if not up:
                    # nobody to elect right now
                    self.world.later(0.2, self._restore_leader, topic, idx, old)
                    return
                old = up[int(self.world.rng.next("election", topic, idx) * len(up))]
            cl.move_leader(topic, idx, old)

    def _unblackhole(self, br):
        br.blackhole = False


def _split(do):
    if isinstance(do, str):
        return do, None
    if isinstance(do, dict):
        (name, arg), = do.items()
        return name, arg
    raise ValueError(do)
