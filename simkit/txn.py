"""Transaction coordinator model (DESIGN.md App. A.3) + InitProducerId."""
from __future__ import annotations

from . import recfmt
from .cluster import (
    CONCURRENT_TRANSACTIONS, INVALID_PRODUCER_EPOCH, INVALID_PRODUCER_ID_MAPPING,
    INVALID_TXN_STATE, NONE, OPERATION_NOT_ATTEMPTED, TOPIC_AUTHORIZATION_FAILED,
    TRANSACTIONAL_ID_AUTHORIZATION_FAILED, GROUP_AUTHORIZATION_FAILED, UNKNOWN_TOPIC_OR_PARTITION,
)


class Txn:
    def __init__(self, tid, pid):
        self.tid = tid
        self.pid = pid
        self.epoch = -1
        self.state = "Empty"
        self.partitions = set()
        self.groups = set()
        self.pending_offsets = {}  # group -> {tp: (offset, metadata)}
        self.serial = 0  # number of transactions started
        self.pending_result = None


class TxnCoordinatorModel:
    def __init__(self, cluster):
        self.cluster = cluster
        self.world = cluster.world
        cluster.txns = self
        self.txns = {}
        self.by_pid = {}
        self.marker_delay = (0.001, 0.03)
        self.unauthorized_tids = set()
        self.unauthorized_groups = set()
        self.ledger = []  # (seq, t, kind, tid, pid, epoch, detail)
        self.completed = []  # dicts describing every finished transaction
        cluster.handlers.update({
            "InitProducerId": self.h_init_pid,
            "AddPartitionsToTxn": self.h_add_partitions,
            "AddOffsetsToTxn": self.h_add_offsets,
            "EndTxn": self.h_end_txn,
            "TxnOffsetCommit": self.h_txn_offset_commit,
        })

    def _led(self, kind, txn, detail=None):
        w = self.world
        seq = w.log.add(w.now(), "txn", kind, txn.tid if txn else None,
                        txn.epoch if txn else None)
        self.ledger.append((seq, w.now(), kind, txn.tid if txn else None,
                            txn.pid if txn else None, txn.epoch if txn else None, detail))

    # ---- InitProducerId ------------------------------------------------------------
    def h_init_pid(self, broker, conn, req, respond):
        cl = self.cluster
        tid = req.body["transactional_id"]
        if tid is None:
            cl.next_pid += 1
            respond({"error_code": 0, "producer_id": cl.next_pid, "producer_epoch": 0})
            return
        if tid in self.unauthorized_tids:
            respond({"error_code": TRANSACTIONAL_ID_AUTHORIZATION_FAILED, "producer_id": -1,
                     "producer_epoch": -1})
            return
        code = cl.coordinator_check(broker, 1, tid)
        if code:
            respond({"error_code": code, "producer_id": -1, "producer_epoch": -1})
            return
        txn = self.txns.get(tid)
        if txn is None:
            cl.next_pid += 1
            txn = self.txns[tid] = Txn(tid, cl.next_pid)
            self.by_pid[txn.pid] = txn
        if txn.state == "Ongoing":
            # fence the current epoch and abort its transaction
            txn.epoch += 1
            self._led("fence_abort", txn)
            self.world.probe("init_pid_aborts_ongoing")
            self._prepare_end(txn, commit=False)
            respond({"error_code": CONCURRENT_TRANSACTIONS, "producer_id": -1, "producer_epoch": -1})
            return
        if txn.state in ("PrepareCommit", "PrepareAbort"):
            respond({"error_code": CONCURRENT_TRANSACTIONS, "producer_id": -1, "producer_epoch": -1})
            return
        txn.epoch += 1
        txn.state = "Empty"
        self._led("init", txn)
        respond({"error_code": 0, "producer_id": txn.pid, "producer_epoch": txn.epoch})

    # ---- common validation --------------------------------------------------------------
    def _validate(self, broker, body):
        cl = self.cluster
        tid = body["transactional_id"]
        if tid in self.unauthorized_tids:
            return None, TRANSACTIONAL_ID_AUTHORIZATION_FAILED
        code = cl.coordinator_check(broker, 1, tid)
        if code:
            return None, code
        txn = self.txns.get(tid)
        if txn is None or txn.pid != body["producer_id"]:
            return None, INVALID_PRODUCER_ID_MAPPING
        if body["producer_epoch"] != txn.epoch:
            return None, INVALID_PRODUCER_EPOCH
        return txn, 0

    # ---- AddPartitionsToTxn ----------------------------------------------------------------
    def h_add_partitions(self, broker, conn, req, respond):
        b = req.body
        txn, code = self._validate(broker, b)

        def reply(code_for):
            respond({"results": [{"name": t["name"], "results": [
                {"partition": p, "error_code": code_for(t["name"], p)} for p in t["partitions"]]}
                for t in b["topics"]]})

        if code:
            reply(lambda t, p: code)
            return
        if txn.state in ("PrepareCommit", "PrepareAbort"):
            self.world.probe("concurrent_transactions_served")
            reply(lambda t, p: CONCURRENT_TRANSACTIONS)
            return
        cl = self.cluster
        bad = {}
        for t in b["topics"]:
            top = cl.topics.get(t["name"])
            for p in t["partitions"]:
                if top is None or p >= len(top.partitions):
                    bad[(t["name"], p)] = UNKNOWN_TOPIC_OR_PARTITION
                elif not top.authorized or not top.writable:
                    bad[(t["name"], p)] = TOPIC_AUTHORIZATION_FAILED
        if bad:
            if TOPIC_AUTHORIZATION_FAILED in bad.values():
                # an error reply the application can only answer by aborting: engines that
                # track "the error reply reached the producer" treat it like an injected one
                req.injected_error = True
            reply(lambda t, p: bad.get((t, p), OPERATION_NOT_ATTEMPTED))
            return
        if txn.state != "Ongoing":
            txn.state = "Ongoing"
            txn.serial += 1
            txn.partitions = set()
            txn.groups = set()
            txn.pending_offsets = {}
        for t in b["topics"]:
            for p in t["partitions"]:
                txn.partitions.add((t["name"], p))
        self._led("add_partitions", txn, sorted(txn.partitions))
        reply(lambda t, p: 0)

    # ---- AddOffsetsToTxn ---------------------------------------------------------------------
    def h_add_offsets(self, broker, conn, req, respond):
        b = req.body
        txn, code = self._validate(broker, b)
        if code:
            respond({"error_code": code})
            return
        if b["group_id"] in self.unauthorized_groups:
            respond({"error_code": GROUP_AUTHORIZATION_FAILED})
            return
        if txn.state in ("PrepareCommit", "PrepareAbort"):
            self.world.probe("concurrent_transactions_served")
            respond({"error_code": CONCURRENT_TRANSACTIONS})
            return
        if txn.state != "Ongoing":
            txn.state = "Ongoing"
            txn.serial += 1
            txn.partitions = set()
            txn.groups = set()
            txn.pending_offsets = {}
        txn.groups.add(b["group_id"])
        self._led("add_offsets", txn, b["group_id"])
        respond({"error_code": 0})

    # ---- TxnOffsetCommit (served by the GROUP coordinator) -----------------------------------
    def h_txn_offset_commit(self, broker, conn, req, respond):
        b = req.body
        cl = self.cluster

        def reply(code):
            respond({"topics": [{"name": t["name"], "partitions": [
                {"partition": p["partition"], "error_code": code} for p in t["partitions"]]}
                for t in b["topics"]]})

        if b["group_id"] in self.unauthorized_groups:
            reply(GROUP_AUTHORIZATION_FAILED)
            return
        code = cl.coordinator_check(broker, 0, b["group_id"])
        if code:
            reply(code)
            return
        txn = self.txns.get(b["transactional_id"])
        if txn is None or txn.pid != b["producer_id"]:
            reply(INVALID_PRODUCER_ID_MAPPING)
            return
        if b["producer_epoch"] != txn.epoch:
            reply(INVALID_PRODUCER_EPOCH)
            return
        if txn.state != "Ongoing" or b["group_id"] not in txn.groups:
            self.world.violation("C07", "txn_offset_commit_outside_txn",
                                 {"tid": txn.tid, "state": txn.state, "group": b["group_id"]})
            reply(INVALID_TXN_STATE)
            return
        pend = txn.pending_offsets.setdefault(b["group_id"], {})
        for t in b["topics"]:
            for p in t["partitions"]:
                pend[(t["name"], p["partition"])] = (p["offset"], p["metadata"])
        self._led("txn_offset_commit", txn, {b["group_id"]: sorted(
            (tp[0], tp[1], o) for tp, (o, _) in pend.items())})
        reply(0)

    # ---- EndTxn ------------------------------------------------------------------------------------
    def h_end_txn(self, broker, conn, req, respond):
        b = req.body
        txn, code = self._validate(broker, b)
        if code:
            respond({"error_code": code})
            return
        commit = b["committed"]
        want = "Commit" if commit else "Abort"
        if txn.state == "Ongoing":
            self.world.emit("end_txn", txn, commit, req)
            self._prepare_end(txn, commit)
            respond({"error_code": 0})
        elif txn.state == "Prepare" + want:
            self.world.probe("concurrent_transactions_served")
            respond({"error_code": CONCURRENT_TRANSACTIONS})
        elif txn.state == "Complete" + want:
            respond({"error_code": 0})
        else:
            respond({"error_code": INVALID_TXN_STATE})

    def _prepare_end(self, txn, commit):
        w = self.world
        txn.state = "PrepareCommit" if commit else "PrepareAbort"
        self._led("prepare_commit" if commit else "prepare_abort", txn)
        epoch = txn.epoch
        d = w.rng.uniform(self.marker_delay[0], self.marker_delay[1], "marker", txn.tid)
        w.later(d, self._write_markers, txn, commit, epoch, txn.serial)

    def _write_markers(self, txn, commit, epoch, serial):
        w = self.world
        cl = self.cluster
        ts = int(w.loop.clock.time() * 1000)
        parts = sorted(txn.partitions)
        for (topic, idx) in parts:
            part = cl.partition(topic, idx)
            if part is None:
                continue
            raw = recfmt.control_batch(part.next_offset, txn.pid, epoch, commit, 0, ts)
            part.add_stored(raw, append_ms=ts)
        committed_offsets = {}
        if commit:
            for group, offs in txn.pending_offsets.items():
                store = cl.group_offsets.setdefault(group, {})
                for tp, om in offs.items():
                    store[tp] = om
                committed_offsets[group] = dict(offs)
        self.completed.append({
            "tid": txn.tid, "pid": txn.pid, "epoch": epoch, "serial": serial, "commit": commit,
            "partitions": parts, "offsets": {g: dict(o) for g, o in txn.pending_offsets.items()},
            "t": w.now(),
        })
        txn.pending_offsets = {}
        txn.state = "CompleteCommit" if commit else "CompleteAbort"
        self._led("complete_commit" if commit else "complete_abort", txn, parts)

    # ---- partition-side check for transactional batches ------------------------------------------
    def check_produce(self, bt, tp, txn_id):
        txn = self.by_pid.get(bt.pid)
        if txn is None:
            self.world.violation("C07", "transactional_batch_unknown_pid", {"pid": bt.pid, "tp": tp})
            return INVALID_PRODUCER_ID_MAPPING
        if bt.epoch < txn.epoch:
            self.world.probe("fenced_zombie_produce")
            return INVALID_PRODUCER_EPOCH
        if txn.state != "Ongoing" or tp not in txn.partitions:
            self.world.violation(
                "C07", "produce_outside_open_transaction",
                {"tid": txn.tid, "state": txn.state, "tp": list(tp),
                 "registered": sorted(txn.partitions), "base_seq": bt.base_seq})
            return INVALID_TXN_STATE
        return NONE
