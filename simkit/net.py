"""Simulated network: in-memory transports between real asyncio protocols and
simulated broker endpoints.  TCP semantics per connection (ordered, lossless,
no duplication); latency, chunking and resets are seeded."""
from __future__ import annotations

import asyncio
import collections
import hashlib
import struct

from .loop import OWNER, sim_context
from . import wire


class Rng:
    """Counter-based randomness: value = H(seed, purpose, key).  Dropping a
    step of a plan does not shift unrelated draws."""

    def __init__(self, seed):
        self.seed = str(seed).encode()
        self._ctr = collections.Counter()

    def _h(self, purpose, key):
        h = hashlib.blake2b(digest_size=8)
        h.update(self.seed)
        h.update(b"/")
        h.update(purpose.encode())
        h.update(b"/")
        h.update(repr(key).encode())
        return int.from_bytes(h.digest(), "big")

    def u(self, purpose, *key):
        return self._h(purpose, key) / 2.0**64

    def next(self, purpose, *key):
        """k-th draw of a (purpose, key) stream."""
        k = self._ctr[(purpose, key)]
        self._ctr[(purpose, key)] = k + 1
        return self._h(purpose, key + (k,)) / 2.0**64

    def randint(self, lo, hi, purpose, *key):
        return lo + int(self.next(purpose, *key) * (hi - lo + 1))

    def uniform(self, lo, hi, purpose, *key):
        return lo + self.next(purpose, *key) * (hi - lo)

    def choice(self, seq, purpose, *key):
        return seq[int(self.next(purpose, *key) * len(seq))]


class EventLog:
    def __init__(self):
        self.events = []
        self.seq = 0

    def add(self, t, kind, *fields):
        self.seq += 1
        self.events.append((self.seq, round(t, 9), kind) + fields)
        return self.seq

    def digest(self):
        h = hashlib.sha256()
        for e in self.events:
            h.update(repr(e).encode())
            h.update(b"\n")
        return h.hexdigest()

    def tail(self, n=200):
        return [list(map(_jsonable, e)) for e in self.events[-n:]]


def _jsonable(x):
    if isinstance(x, (bytes, bytearray)):
        return x.hex()
    if isinstance(x, (list, tuple)):
        return [_jsonable(y) for y in x]
    if isinstance(x, dict):
        return {str(k): _jsonable(v) for k, v in x.items()}
    if isinstance(x, (int, float, str, bool)) or x is None:
        return x
    return repr(x)


class SimTransport(asyncio.Transport):
    def __init__(self, conn):
        super().__init__()
        self.conn = conn
        self._closing = False
        self._paused = False

    def get_extra_info(self, name, default=None):
        if name == "peername":
            return (self.conn.host, self.conn.port)
        return default

    def is_closing(self):
        return self._closing

    def is_reading(self):
        return not self._paused and not self._closing

    def pause_reading(self):
        self._paused = True

    def resume_reading(self):
        if self._paused:
            self._paused = False
            self.conn._flush_paused()

    def set_write_buffer_limits(self, high=None, low=None):
        pass

    def get_write_buffer_size(self):
        return 0

    def get_write_buffer_limits(self):
        return (0, 0)

    def can_write_eof(self):
        return True

    def write_eof(self):
        pass

    def write(self, data):
        if self._closing or self.conn.client_lost:
            return
        self.conn._client_write(bytes(data))

    def writelines(self, lines):
        self.write(b"".join(lines))

    def close(self):
        if self._closing:
            return
        self._closing = True
        self.conn._client_close()

    def abort(self):
        self.close()


class SimConn:
    """One TCP connection between a client protocol and a broker endpoint."""

    def __init__(self, net, cid, host, port, endpoint, protocol, owner):
        self.net = net
        self.world = net.world
        self.id = cid
        self.host, self.port = host, port
        self.endpoint = endpoint
        self.protocol = protocol
        self.owner = owner
        self.client_id = None
        self.transport = SimTransport(self)
        # client side state
        self.client_lost = False  # connection_lost delivered / scheduled
        self.client_closed = False  # client called close()
        self._wbuf = bytearray()
        self._c2s = collections.deque()
        self._c2s_last = 0.0
        self._s2c = collections.deque()
        self._s2c_last = 0.0
        self._rx_due = collections.deque()
        self._rx_scheduled = False
        # server side state
        self.server_closed = False
        self.raw_mode = False  # SASL v0 raw tokens
        self.srv_queue = collections.deque()
        self.srv_busy = False
        self.stalled = False  # responses black-holed
        self.srv_state = {}
        self.bytes_s2c = 0
        self.reset_at_s2c = None  # cut after this many response bytes
        self.nreq = 0

    # ------------------------------------------------------------ client -> server
    def _client_write(self, data):
        w = self.world
        self._wbuf += data
        while True:
            if len(self._wbuf) < 4:
                return
            (size,) = struct.unpack_from(">i", self._wbuf, 0)
            if size < 0 or len(self._wbuf) < 4 + size:
                if size < 0:
                    w.violation("C11", "negative_request_size", {"conn": self.id, "size": size})
                    self._wbuf.clear()
                return
            frame = bytes(self._wbuf[4:4 + size])
            del self._wbuf[:4 + size]
            self._client_frame(frame)

    def _client_frame(self, frame):
        w = self.world
        now = w.loop.time()
        self.nreq += 1
        if self.raw_mode:
            item = ("raw", frame)
            w.log.add(now, "c_write_raw", self.id, len(frame))
        else:
            try:
                req = wire.parse_request(frame)
            except (wire.WireError, UnicodeDecodeError, struct.error) as exc:
                w.violation("C11", "request_unparseable",
                            {"conn": self.id, "error": str(exc), "frame": frame[:64].hex()})
                item = ("bad", frame)
            else:
                if self.client_id is None:
                    self.client_id = req.client_id
                req.conn = self
                req.t_write = now
                req.seq_write = w.log.add(now, "c_write", self.id, req.name, req.api_version,
                                          req.correlation_id, req.client_id)
                w.on_client_write(self, req)
                item = ("req", req)
        lat = self.net.latency(self, "c2s")
        t = max(self._c2s_last, now + lat)
        self._c2s_last = t
        self._c2s.append(item)
        w.loop.call_at(t, self._deliver_c2s, context=sim_context())

    def _deliver_c2s(self):
        item = self._c2s.popleft()
        if self.server_closed:
            return
        kind, payload = item
        if kind == "bad":
            # a real broker closes the connection on an unparseable request
            self.server_close("eof")
            return
        self.srv_queue.append(item)
        self._pump_server()

    def _pump_server(self):
        if self.srv_busy or self.server_closed or not self.srv_queue:
            return
        kind, payload = self.srv_queue.popleft()
        self.srv_busy = True
        if kind == "raw":
            self.endpoint.on_raw(self, payload)
        else:
            self.endpoint.on_request(self, payload)

    def request_done(self):
        """Server finished a request (response queued or intentionally none)."""
        self.srv_busy = False
        self._pump_server()

    def _client_close(self):
        w = self.world
        now = w.loop.time()
        self.client_closed = True
        w.log.add(now, "c_close", self.id)
        w.on_client_conn_end(self, "close")
        if not self.client_lost:
            self.client_lost = True
            w.loop.call_soon(self._call_connection_lost, None)
        lat = self.net.latency(self, "c2s")
        t = max(self._c2s_last, now + lat)
        self._c2s_last = t
        w.loop.call_at(t, self._server_sees_close, context=sim_context())

    def _call_connection_lost(self, exc):
        try:
            self.protocol.connection_lost(exc)
        finally:
            self.transport._closing = True

    def _server_sees_close(self):
        if not self.server_closed:
            self.server_closed = True
            self.endpoint.on_conn_closed(self)

    # ------------------------------------------------------------ server -> client
    def send(self, data, tag=None):
        """Queue response bytes for the client, cut into seeded chunks."""
        if self.server_closed or self.stalled:
            return
        w = self.world
        now = w.loop.time()
        chunks = self.net.chunk(self, data)
        n = len(chunks)
        for i, ch in enumerate(chunks):
            if self.reset_at_s2c is not None and self.bytes_s2c + len(ch) > self.reset_at_s2c:
                keep = self.reset_at_s2c - self.bytes_s2c
                if keep > 0:
                    self._queue_s2c(("data", ch[:keep], None), now)
                self.bytes_s2c += max(keep, 0)
                self.reset_at_s2c = None
                self.server_close("reset")
                return
            self.bytes_s2c += len(ch)
            self._queue_s2c(("data", ch, tag if i == n - 1 else None), now)

    def _queue_s2c(self, item, now):
        gap = self.net.latency(self, "s2c")
        # (loop flavour "coalesce": bytes and the end of the stream may sit in the socket
        # buffer together, i.e. become due at the same instant)
        t = max(self._s2c_last + (0.0 if self.net.coalesce_eof else 1e-6), now + gap)
        self._s2c_last = t
        self._s2c.append(item)
        self.world.loop.call_at(t, self._deliver_s2c, context=self._client_ctx())

    def _client_ctx(self):
        return self.net.ctx_for(self.owner)

    def server_close(self, how="eof"):
        """Broker-side termination: 'eof' (FIN) or 'reset' (RST)."""
        if self.server_closed:
            return
        self.server_closed = True
        now = self.world.loop.time()
        self.world.log.add(now, "s_close", self.id, how)
        self._queue_s2c((how, None, None), now)
        self.endpoint.on_conn_closed(self)

    def _deliver_s2c(self):
        """A network event became due.  Like a selector loop, the client sees at
        most one read event per connection per loop iteration: data that is due
        together is read in one recv(), and EOF / RST are only noticed on a later
        iteration than the data before them (so the protocol's reader task always
        gets to run in between)."""
        item = self._s2c.popleft()
        if self.client_lost:
            return
        self._rx_due.append(item)
        if not self._rx_scheduled:
            self._rx_scheduled = True
            self.world.loop.call_soon(self._rx_pump, context=self._client_ctx())

    def _flush_paused(self):
        if self._rx_due and not self._rx_scheduled and not self.client_lost:
            self._rx_scheduled = True
            self.world.loop.call_soon(self._rx_pump, context=self._client_ctx())

    def _rx_pump(self):
        self._rx_scheduled = False
        if self.client_lost or not self._rx_due:
            return
        if self.transport._paused:
            return  # resume_reading() re-arms the pump
        w = self.world
        now = w.loop.time()
        kind = self._rx_due[0][0]
        if kind == "data":
            datas = []
            tags = []
            while self._rx_due and self._rx_due[0][0] == "data":
                _, data, tag = self._rx_due.popleft()
                datas.append(data)
                if tag is not None:
                    tags.append(tag)
            data = b"".join(datas)
            w.log.add(now, "c_recv", self.id, len(data), tags[-1] if tags else None)
            for tag in tags:
                w.on_client_response(self, tag)
            self.protocol.data_received(data)
            if self.net.coalesce_eof and self._rx_due and self._rx_due[0][0] == "eof" \
                    and not self.client_lost and not self.transport._paused:
                # loop flavour knob: transports that drain the socket in one callback
                # (sslproto, proactor and uvloop style) report the end of the stream
                # right after the last bytes, before any task had a chance to run
                w.probe("eof_coalesced_with_data")
                self._rx_pump()
                return
        else:
            self._rx_due.popleft()
            if kind == "eof":
                w.log.add(now, "c_eof", self.id)
                w.on_client_conn_end(self, "eof")
                keep = self.protocol.eof_received()
                if not keep:
                    self.transport.close()
            else:  # reset
                w.log.add(now, "c_reset", self.id)
                w.on_client_conn_end(self, "reset")
                self.client_lost = True
                self.transport._closing = True
                self.protocol.connection_lost(ConnectionResetError("simulated reset"))
                return
        if self._rx_due and not self.client_lost:
            self._rx_scheduled = True
            w.loop.call_soon(self._rx_pump, context=self._client_ctx())


class SimNet:
    def __init__(self, world):
        self.world = world
        self.endpoints = {}  # (host, port) -> endpoint
        self.conns = []
        self.lat_lo, self.lat_hi = 0.0002, 0.003
        self.chunk_mode = "random"  # whole | random | bytes
        self._ctx = {}
        self.connect_refused = set()  # (host, port)
        self.blackholed = set()
        self.const_latency = None
        self.coalesce_eof = False

    def ctx_for(self, owner):
        ctx = self._ctx.get(owner)
        if ctx is None:
            from .loop import owner_context
            ctx = self._ctx[owner] = owner_context(owner)
        return ctx

    def latency(self, conn, direction):
        if self.const_latency is not None:
            return self.const_latency
        rng = self.world.rng
        return rng.uniform(self.lat_lo, self.lat_hi, "lat", conn.id, direction)

    def chunk(self, conn, data):
        mode = self.chunk_mode
        if mode == "whole" or len(data) <= 1:
            return [data]
        rng = self.world.rng
        if mode == "bytes":
            return [data[i:i + 1] for i in range(len(data))]
        r = rng.next("chunkmode", conn.id)
        if r < 0.5:
            return [data]
        ncuts = 1 if r < 0.8 else 2 if r < 0.95 else 3
        cuts = sorted({rng.randint(1, len(data) - 1, "cut", conn.id) for _ in range(ncuts)})
        out = []
        prev = 0
        for c in cuts:
            out.append(data[prev:c])
            prev = c
        out.append(data[prev:])
        return out

    async def connect(self, protocol_factory, host, port):
        w = self.world
        loop = w.loop
        owner = OWNER.get()
        cid = len(self.conns)
        key = (host, port)
        ep = self.endpoints.get(key)
        delay = w.rng.uniform(self.lat_lo, self.lat_hi * 2, "connect", cid)
        if self.const_latency is not None:
            delay = self.const_latency
        self.conns.append(None)
        w.log.add(loop.time(), "connect", cid, host, port, owner)
        if ep is None or key in self.connect_refused or not ep.accepting():
            await asyncio.sleep(delay)
            w.log.add(loop.time(), "connect_refused", cid)
            w.count_fault("connect_refused", extend=False)
            raise ConnectionRefusedError(f"simulated: {host}:{port} refused")
        if key in self.blackholed or ep.blackholed():
            w.log.add(loop.time(), "connect_blackholed", cid)
            w.count_fault("connect_blackholed", extend=False)
            await loop.create_future()  # never completes; caller's timeout cancels
        await asyncio.sleep(delay)
        if not ep.accepting():
            raise ConnectionRefusedError(f"simulated: {host}:{port} refused")
        protocol = protocol_factory()
        conn = SimConn(self, cid, host, port, ep, protocol, owner)
        self.conns[cid] = conn
        w.loop.transports.append(conn.transport)
        protocol.connection_made(conn.transport)
        ep.on_connect(conn)
        w.log.add(loop.time(), "connected", cid)
        return conn.transport, protocol
