"""Process-wide seams.  Must be imported (and install() called) BEFORE aiokafka:
record/default_records.py binds time.time as a default argument at import."""
from __future__ import annotations

import gc
import logging
import random
import time
import uuid

from .loop import CLOCK

REAL_PERF = time.perf_counter
REAL_TIME = time.time
_installed = False
_uuid_state = {"rng": random.Random(0)}


def _uuid4():
    return uuid.UUID(int=_uuid_state["rng"].getrandbits(128), version=4)


class OrderedSet:
    """Insertion-ordered set used to replace id()-hashed containers."""

    def __init__(self, it=()):
        self._d = dict.fromkeys(it)

    def add(self, x):
        self._d[x] = None

    def remove(self, x):
        del self._d[x]

    def discard(self, x):
        self._d.pop(x, None)

    def __iter__(self):
        return iter(list(self._d))

    def __len__(self):
        return len(self._d)

    def __contains__(self, x):
        return x in self._d

    def __bool__(self):
        return bool(self._d)


def install():
    global _installed
    if _installed:
        return
    _installed = True
    time.monotonic = CLOCK.monotonic
    time.time = CLOCK.time
    time.time_ns = CLOCK.time_ns
    time.monotonic_ns = CLOCK.monotonic_ns
    uuid.uuid4 = _uuid4
    logging.getLogger("aiokafka").setLevel(logging.CRITICAL + 1)
    logging.getLogger("asyncio").setLevel(logging.CRITICAL + 1)
    logging.raiseExceptions = False
    import warnings
    warnings.simplefilter("ignore")


def post_import():
    """Harness-side determinism fixes applied after aiokafka is imported
    (monkeypatches in the worker only; no repository change)."""
    import aiokafka.cluster as ac
    from aiokafka.producer import message_accumulator as ma

    orig_init = ac.ClusterMetadata.__init__

    def init(self, *a, **k):
        orig_init(self, *a, **k)
        self._listeners = OrderedSet()

    if not getattr(ac.ClusterMetadata, "_sim_patched", False):
        ac.ClusterMetadata.__init__ = init
        ac.ClusterMetadata._sim_patched = True

    # MessageBatch objects live in a set (MessageAccumulator._pending_batches)
    # that fail_all() iterates: give them a per-run serial hash.
    if not getattr(ma.MessageBatch, "_sim_patched", False):
        orig_mb_init = ma.MessageBatch.__init__
        counter = {"n": 0}

        def mb_init(self, *a, **k):
            counter["n"] += 1
            self._sim_serial = counter["n"]
            orig_mb_init(self, *a, **k)

        ma.MessageBatch.__init__ = mb_init
        ma.MessageBatch.__hash__ = lambda self: self._sim_serial
        ma.MessageBatch._sim_patched = True


def begin_run(seed):
    gc.collect()
    gc.disable()
    random.seed(seed)
    _uuid_state["rng"] = random.Random(seed ^ 0x5EED)


def end_run():
    gc.enable()
