#!/bin/sh
# mkwt.sh <name>: scratch worktree of /repo HEAD under /tmp/mut/<name> with the extensions built in place
set -e
d=/tmp/mut/$1
mkdir -p /tmp/mut /tmp/mut/out/$1
git -C /repo worktree add --detach "$d" HEAD >/dev/null 2>&1
cd "$d" && /venv/bin/python setup.py build_ext --inplace >/dev/null 2>&1
rm -rf "$d/build"
echo "$d"
