#!/usr/bin/env python3
"""Print the sub-agent prompt for one property (property text + scratch worktree only)."""
import json, sys
pid = sys.argv[1]
tag = sys.argv[2] if len(sys.argv) > 2 else pid
for l in open('/verif/properties.jsonl'):
    p = json.loads(l)
    if p['id'] == pid:
        break
else:
    sys.exit('no such property')
text = json.dumps({k: p[k] for k in ('id', 'title', 'statement', 'quantifier', 'why_tests_cant', 'anchors')}, indent=1)
print(f"""You are helping to evaluate a verification effort for the Python library aio-libs/aiokafka (asyncio Kafka client). Your job is to play the role of a realistic but subtly wrong code change.

You have your own scratch git worktree of the repository at /tmp/mut/{tag} (extensions already built in place). Work ONLY inside /tmp/mut/{tag} and write your results to /tmp/mut/out/{tag}/ . Do NOT read, list or touch /repo, /verif or any other directory under /tmp/mut — your work must be independent of them. There is no network.

Here is one semantic property of aiokafka that is supposed to hold (JSON record):

{text}

TASK: produce TWO different, independent changes ("mutants") to the aiokafka source in the worktree, each of which BREAKS this property while
  (1) still importing/compiling, and
  (2) still passing the existing offline test suite unchanged: `cd /tmp/mut/{tag} && /venv/bin/python -m pytest -q -p no:cacheprovider --timeout=900 -x` (about 30 s, 649 tests pass on the unchanged tree, the rest are skipped because they need a broker). If you change a .pyx file rebuild with `/venv/bin/python setup.py build_ext --inplace` first.
Each change should look like something a maintainer could plausibly commit by mistake (a refactor, an "optimisation", a wrong condition, a missed await, state cleared too early/late, an off-by-one in a rarely taken branch, a lock/guard dropped ...). Prefer changes that need something SPECIFIC to manifest — a particular interleaving of tasks, a fault (connection drop, timeout, error reply) at a particular point, a multi-step sequence of operations, an unusual input or configuration, or two cooperating sites that each look fine alone — NOT changes that any ordinary use would expose at once (e.g. not "send() always raises"). The two mutants should touch different mechanisms.

For EACH mutant (call them {tag}a and {tag}b) deliver, under /tmp/mut/out/{tag}/ :
  - {tag}a.diff  (resp. {tag}b.diff): `git diff` of ONLY that mutant against the unchanged tree (apply one mutant at a time; reset the worktree with `git checkout -- .` between them). It must apply with `git apply` to a clean checkout.
  - demo_{tag}a.py (resp. demo_{tag}b.py): a small self-contained demonstration (pytest test file or plain script using mocks / fake brokers / in-memory transports — no real Kafka broker exists here) that FAILS (non-zero exit) with the mutant applied and PASSES (exit 0) on the unchanged tree. Say in a comment at the top how to run it (e.g. `cd /tmp/mut/{tag} && /venv/bin/python -m pytest -q /tmp/mut/out/{tag}/demo_{tag}a.py` or `/venv/bin/python demo.py`). It must run with cwd=/tmp/mut/{tag} so that `import aiokafka` picks up the worktree.
  - notes_{tag}a.md (resp. b): 5-15 lines: what was changed, which clause of the property it breaks, and what exactly is needed for the breakage to manifest (schedule / fault / sequence / input / configuration).

Before finishing, VERIFY for each mutant yourself: (i) with the mutant applied the full test suite still passes, (ii) the demo fails with the mutant, (iii) the demo passes without it. Leave the worktree clean (`git checkout -- .`) at the end; do not commit anything. If after real effort you can only produce one mutant, deliver one and say so.

Your final message: for each mutant one short paragraph (files changed, what it needs to manifest, verification results).""")
