#!/venv/bin/python
"""evalmut.py <prop> <tag> [check-prop ...]: confirm a sub-agent's mutant and run our checks on it.

Steps (all in the scratch worktree /tmp/mut/<prop>, never in /repo):
  1. move the worktree to /repo's HEAD, clean
  2. demo must pass on the clean tree
  3. apply /tmp/mut/out/<prop>/<tag>.diff ; rebuild extensions if a .pyx changed
  4. the pinned test suite must still pass; the demo must fail
  5. run `./check <P> quick` for each check-prop (default: <prop>) with VERIF_REPO=<worktree>
  6. write /verif/seeded/<tag>/{patch.diff,demo.py,notes.md,meta.json}; clean the worktree
"""
import json, os, shutil, subprocess, sys, time

prop, tag = sys.argv[1], sys.argv[2]
checks = sys.argv[3:] or [prop]
wt = f"/tmp/mut/{prop}"
out = os.environ.get("EVAL_OUT", f"/tmp/mut/out/{prop}")
diff = f"{out}/{tag}.diff"
demo = f"{out}/demo_{tag}.py"
seed = os.environ.get("VERIF_SEED", "0")


def sh(cmd, cwd=None, timeout=3600, env=None):
    p = subprocess.run(cmd, shell=True, cwd=cwd, capture_output=True, text=True, timeout=timeout, env=env)
    return p.returncode, (p.stdout + p.stderr)


def demo_cmd():
    src = open(demo).read()
    if "def test_" in src:
        return f"/venv/bin/python -m pytest -q -p no:cacheprovider -x {demo}"
    return f"/venv/bin/python {demo}"


def clean():
    sh("git checkout -q -- . && git clean -fdq -e '*.so' -e '*.c'", wt)


head = sh("git rev-parse HEAD", "/repo")[1].strip()
clean()
sh(f"git checkout -q --detach {head}", wt)
meta = {"id": tag, "property": prop, "repo_head": head, "ran": []}
env = dict(os.environ, PYTHONPATH=wt)
rc, o = sh(demo_cmd(), wt, env=env)
meta["demo_on_clean_tree"] = rc
meta["ran"].append(f"cd {wt} && {demo_cmd()}  # clean tree -> exit {rc}")
rc, o = sh(f"git apply {diff}", wt)
if rc != 0:
    print("APPLY FAILED", o)
    sys.exit(3)
changed = sh("git diff --name-only", wt)[1].split()
meta["files_changed"] = changed
if any(f.endswith((".pyx", ".pxd", ".pxi")) for f in changed):
    rc, o = sh("/venv/bin/python setup.py build_ext --inplace && rm -rf build", wt)
    meta["rebuilt_ext"] = rc
rc, o = sh("timeout 1500 /venv/bin/python -m pytest -q -p no:cacheprovider --timeout=900 -x -q", wt)
meta["suite_with_mutant"] = rc
meta["suite_tail"] = o.strip().splitlines()[-1:] 
meta["ran"].append(f"cd {wt} && /venv/bin/python -m pytest -q -p no:cacheprovider --timeout=900 -x  # mutant -> exit {rc}")
rc, o = sh(demo_cmd(), wt, env=env)
meta["demo_with_mutant"] = rc
meta["ran"].append(f"cd {wt} && {demo_cmd()}  # mutant -> exit {rc}")
meta["confirmed"] = (meta["demo_on_clean_tree"] == 0 and meta["suite_with_mutant"] == 0 and meta["demo_with_mutant"] != 0)
meta["checks"] = {}
tier = os.environ.get("EVAL_TIER", "quick")
for c in checks:
    t0 = time.time()
    rc, o = sh(f"./check {c} {tier}", "/verif", env=dict(os.environ, VERIF_REPO=wt, VERIF_SEED=seed), timeout=7200)
    lines = [l for l in o.splitlines() if l.startswith(("VIOLATION", "  clause", "KNOWN", "HARNESS", c))]
    meta["checks"][c] = {"exit": rc, "tier": tier, "seed": int(seed), "wall_s": round(time.time() - t0, 1),
                         "detected": rc == 1, "lines": [l[:400] for l in lines][:12]}
    meta["ran"].append(f"VERIF_REPO={wt} VERIF_SEED={seed} ./check {c} {tier}  # -> exit {rc}")
    # replays written against a mutant tree are not evidence about /repo
    for l in lines:
        if l.startswith("VIOLATION") and "replay=" in l:
            pth = l.split("replay=")[1].strip()
            if os.path.exists(pth):
                os.remove(pth)
clean()
if meta.get("rebuilt_ext") is not None:
    # the in-place extensions were built from the mutated .pyx: rebuild from the clean sources
    sh("/venv/bin/python setup.py build_ext --inplace && rm -rf build", wt)
d = f"/verif/seeded/{tag}"
os.makedirs(d, exist_ok=True)
shutil.copy(diff, f"{d}/patch.diff")
shutil.copy(demo, f"{d}/demo.py")
if os.path.exists(f"{out}/notes_{tag}.md"):
    shutil.copy(f"{out}/notes_{tag}.md", f"{d}/notes.md")
    meta["needs_to_manifest"] = open(f"{out}/notes_{tag}.md").read()[:1500]
json.dump(meta, open(f"{d}/meta.json", "w"), indent=1)
print(tag, "confirmed" if meta["confirmed"] else "NOT-CONFIRMED", {c: v["exit"] for c, v in meta["checks"].items()})
for c, v in meta["checks"].items():
    for l in v["lines"][:6]:
        print("   ", l[:300])
