"""C03 - consumer yields each visible record once, in offset order, from its position."""
from props import consumer_engine as E

PROP = "C03"
LEVEL = "exploration"
RUNS = {"quick": 10000, "thorough": 400000}
SHRINK_LISTS = ("faults", "tasks", "ops", "appends", "descs")


def gen_plan(seed, index, tier="quick"):
    return E.gen_plan(PROP, seed, index, tier)


def execute(plan):
    return E.execute(plan)
