"""Property registry: id -> module exposing gen_plan / execute / RUNS."""
import importlib

MODULES = {
    "C01": "props.c01", "C02": "props.c02",
}


def get(prop):
    return importlib.import_module(MODULES[prop])
