"""Property registry: id -> module exposing gen_plan / execute / RUNS."""
import importlib

MODULES = {
    "C01": "props.c01", "C02": "props.c02", "C03": "props.c03", "C04": "props.c04", "C05": "props.c05", "C06": "props.c06", "C07": "props.c07", "C08": "props.c08", "C10": "props.c10", "C11": "props.c11", "C16": "props.c16",
    "C12": "props.c12", "C13": "props.c13", "C18": "props.c18", "C19": "props.c19",
}


def get(prop):
    return importlib.import_module(MODULES[prop])
