"""C08 - isolation filter."""
from props import consumer_engine as E

PROP = "C08"
LEVEL = "exploration"
RUNS = {"quick": 8000, "thorough": 400000}
SHRINK_LISTS = ("faults", "tasks", "ops", "appends", "descs")


def gen_plan(seed, index, tier="quick"):
    return E.gen_plan(PROP, seed, index, tier)


def execute(plan):
    return E.execute(plan)
