"""C01 - per-partition produce order; no loss, no duplication under retries."""
from props import producer_engine as E
from props import txn_engine as T

PROP = "C01"
LEVEL = "exploration"
RUNS = {"quick": 10000, "thorough": 400000}


def gen_plan(seed, index, tier="quick"):
    if index % 8 == 7:
        # a transactional producer under retriable faults only (nobody is killed or fenced): the
        # request-ledger clauses of C01 are judged by the same monitors, the rest by C07
        plan = T.gen_plan_c07(seed, 10**6 + index, tier)
        plan["env"] = []
        r = T.scenario.rng_for(seed, PROP, index, "txnride")
        nb = plan["cluster"]["brokers"]
        nparts = plan["cluster"]["topics"]["t0"]["partitions"]
        if nb >= 2 and r.random() < 0.6:
            # a Produce request answered late while its partition's leader moves to another
            # broker: the only way two batches of one partition can be in flight at all
            k = r.randint(1, 6)
            plan["faults"] = list(plan["faults"]) + [
                {"on": {"request": "Produce", "nth": k}, "do": {"delay": r.choice([0.05, 0.2, 0.4])}},
                {"on": {"request": "Produce", "nth": k},
                 "do": {"leader_move": ["t0", r.randrange(nparts), r.randint(1, nb)]}}]
        plan["c01_monitors"] = True
        plan["prop"] = "C01"
        plan["index"] = index
        return plan
    return E.gen_plan(PROP, seed, index, tier)


def execute(plan):
    if plan.get("engine") == "txn":
        res = T.execute(plan)
        res["violations"] = [v for v in res.get("violations", []) if v[0] == "C01"]
        return res
    return E.execute(plan)
