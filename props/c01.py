"""C01 - per-partition produce order; no loss, no duplication under retries."""
from props import producer_engine as E

PROP = "C01"
LEVEL = "exploration"
RUNS = {"quick": 10000, "thorough": 400000}


def gen_plan(seed, index, tier="quick"):
    return E.gen_plan(PROP, seed, index, tier)


def execute(plan):
    return E.execute(plan)
