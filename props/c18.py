"""C18 - SCRAM login proves the password and authenticates the server.

Real AIOKafkaConnection.connect() with SASL_PLAINTEXT + SCRAM against an RFC 5802
server model: honest, honest with another password, tampering in transit (one
field), impostor."""
from __future__ import annotations

import asyncio

from simkit import loop as L
from simkit import scenario
from simkit.scram import ScramServer

PROP = "C18"
LEVEL = "exploration"
RUNS = {"quick": 10000, "thorough": 300000}
SHRINK_LISTS = ()
TAMPERS = ["nonce_prefix", "nonce_replaced", "salt", "iterations", "signature", "signature",
           "sig_truncate", "sig_extend", "error_instead_of_verifier"]
ALPH = "abcXYZ019,=,=é日ß -_@"


def gen_plan(seed, index, tier="quick"):
    r = scenario.rng_for(seed, PROP, index)
    user = "".join(r.choice(ALPH) for _ in range(r.randint(1, 10)))
    password = "".join(r.choice(ALPH + "pw!?") for _ in range(r.randint(1, 16)))
    behaviour = r.choice(["honest", "honest", "wrong_password", "tamper", "tamper", "impostor",
                          "replay", "rotate_honest", "rotate_stale"])
    it = r.choice([1, 2, 10, 100, 4096, 4096, r.randint(1, 20000)])
    return {
        "format": 1, "prop": PROP, "engine": "scram", "seed": scenario.subseed(seed, PROP, index),
        "index": index, "user": user, "password": password,
        "mechanism": r.choice(["SCRAM-SHA-256", "SCRAM-SHA-512"]),
        "salt": bytes(r.randrange(256) for _ in range(r.randint(1, 64))).hex(),
        "iterations": it, "behaviour": behaviour,
        "tamper": r.choice(TAMPERS) if behaviour == "tamper" else None,
        "handshake_max": r.choice([0, 1]), "tamper_arg": r.randrange(1 << 16),
        "server_nonce": "".join(r.choice("abcdefghijklmnopqrstuvwxyz0123456789") for _ in range(12)),
        "cluster": {"brokers": 1, "lat": [0.0001, r.choice([0.0005, 0.005])],
                    "chunk": r.choice(["whole", "random", "bytes"]),
                    "api_versions": {"17": [0, r.choice([0, 1])]}},
    }


def execute(plan):
    from aiokafka.conn import create_conn

    plan = dict(plan)
    plan["cluster"] = dict(plan["cluster"])
    plan["cluster"]["api_versions"] = {"17": [0, plan["handshake_max"]]}
    world, cl = scenario.make_world(plan)
    broker = cl.brokers[1]
    users = {plan["user"]: plan["password"]}
    if plan["behaviour"] == "wrong_password":
        users = {plan["user"]: plan["password"] + "x"}
    srv = ScramServer(world, users, salt=bytes.fromhex(plan["salt"]), iterations=plan["iterations"],
                      server_nonce=plan["server_nonce"], tamper=plan["tamper"],
                      tamper_arg=plan.get("tamper_arg"),
                      impostor=plan["behaviour"] == "impostor")
    broker.sasl = srv
    out = {}
    writes_after = []

    def on_write(conn, req):
        if out.get("failed_at") is not None:
            writes_after.append(req.name)

    world.subscribe("client_write", on_write)

    async def main():
        L.OWNER.set("c18")
        try:
            conn = await create_conn(broker.host, broker.port, client_id="c18",
                                     request_timeout_ms=2000, security_protocol="SASL_PLAINTEXT",
                                     sasl_mechanism=plan["mechanism"],
                                     sasl_plain_username=plan["user"],
                                     sasl_plain_password=plan["password"])
        except Exception as exc:  # noqa: BLE001
            out["result"] = ("raised", type(exc).__name__, str(exc)[:200])
            out["failed_at"] = world.now()
            await asyncio.sleep(0.5)
            return
        out["result"] = ("connected",)
        out["connected"] = conn.connected()
        conn.close()
        await asyncio.sleep(0.01)

    async def login(password):
        try:
            conn = await create_conn(broker.host, broker.port, client_id="c18",
                                     request_timeout_ms=2000, security_protocol="SASL_PLAINTEXT",
                                     sasl_mechanism=plan["mechanism"],
                                     sasl_plain_username=plan["user"],
                                     sasl_plain_password=password)
        except Exception as exc:  # noqa: BLE001
            return ("raised", type(exc).__name__, str(exc)[:200])
        conn.close()
        await asyncio.sleep(0.01)
        return ("connected",)

    async def main_sequence():
        # two logins in one process: state kept between authenticators must not help a peer
        # that does not know the password
        L.OWNER.set("c18")
        first = await login(plan["password"])
        out["first"] = first
        if plan["behaviour"] == "replay":
            sess = srv.sessions[-1] if srv.sessions else None
            if first[0] != "connected" or sess is None or len(sess.sent) < 2:
                out["result"] = ("setup_failed",)
                return
            srv.replay = [sess.sent[0], sess.sent[1]]
            out["result"] = await login(plan["password"])
        else:
            new_pw = plan["password"] + "-new"
            # same user, same salt and iteration count, new password
            srv.users = {plan["user"]: new_pw if plan["behaviour"] == "rotate_honest" else plan["password"]}
            out["result"] = await login(new_pw)
        if out["result"][0] == "raised":
            out["failed_at"] = world.now()
            await asyncio.sleep(0.2)

    sequence = plan["behaviour"] in ("replay", "rotate_honest", "rotate_stale")
    res = scenario.run(plan, world, main_sequence if sequence else main)
    res["nontrivial"] = True
    if res["status"] == "ok" and sequence:
        got = out.get("result", ("none",))
        first = out.get("first", ("none",))
        data = {"behaviour": plan["behaviour"], "first": list(first), "second": list(got),
                "user": plan["user"], "mechanism": plan["mechanism"]}
        if first[0] != "connected":
            world.violation(PROP, "honest_login_rejected", data)
        elif plan["behaviour"] == "rotate_honest":
            if got[0] != "connected":
                world.violation(PROP, "honest_login_rejected_after_password_change", data)
        elif got[0] == "connected":
            world.violation(PROP, "login_completed_with_untrusted_server", data)
        world.probe(f"behaviour_{plan['behaviour']}")
        scenario.finish(res, world, (plan["behaviour"], plan["mechanism"], plan["user"], plan["password"]))
        return res
    if res["status"] == "ok":
        should = plan["behaviour"] == "honest"
        got = out.get("result", ("none",))
        sess = srv.sessions[-1] if srv.sessions else None
        if should and got[0] != "connected":
            world.violation(PROP, "honest_login_rejected", {"result": list(got), "user": plan["user"],
                                                           "iterations": plan["iterations"]})
        if not should and got[0] == "connected":
            world.violation(PROP, "login_completed_with_untrusted_server",
                            {"behaviour": plan["behaviour"], "tamper": plan["tamper"]})
        if should and sess is not None and not sess.authenticated:
            world.violation(PROP, "server_did_not_accept_proof", {"user": plan["user"]})
        if got[0] == "raised" and writes_after:
            world.violation(PROP, "request_sent_after_failed_login", {"requests": writes_after})
        if sess is None:
            world.violation(PROP, "no_sasl_exchange", {"result": list(got)})
        world.probe(f"behaviour_{plan['behaviour']}_{plan['tamper']}")
        if plan["behaviour"] == "impostor" and plan.get("tamper_arg") is not None:
            world.probe(f"impostor_signature_shape_{plan['tamper_arg'] % 4}")
    scenario.finish(res, world, (plan["behaviour"], plan["tamper"], plan.get("tamper_arg"), plan["mechanism"], plan["handshake_max"], plan["user"], plan["password"], len(plan["salt"]), plan["iterations"], plan["cluster"]["chunk"]))
    return res
