"""C11 - API messages encode to the Kafka wire format and negotiate versions safely
(the part of the property that involves a peer; see DESIGN.md 5 C11).

Every simulated broker speaks through the independent wire codec (simkit/wire.py) and
advertises a per-run ApiVersions table.  Two kinds of runs:

* ride-along: a fault-free producer / consumer / group / transaction workload of the
  other engines is executed twice - against brokers advertising the newest versions
  (control) and against brokers advertising a seeded random (min, max) range per API that
  still overlaps what the client supports.  The wire monitor judges every request (header
  version inside the advertised range and the highest common one, body parses under the
  hand-written schema of exactly that version with no trailing bytes and re-encodes
  byte-identically, produced batches decode); and because nothing but the versions
  differs, a workload that succeeds in the control run and fails its own oracles in the
  ranged run failed *because of* negotiation or version-specific encoding / decoding.
* feature runs: a client that needs a feature (transactional id, isolation level,
  coordinator type, timestamp search) against brokers too old to express it, and brokers
  whose range is disjoint from the client's (also ranges inside a hole of the client's
  version list): no request may be written that silently drops the feature or carries a
  version outside the advertised range, and the call must fail instead of hanging."""
from __future__ import annotations

import asyncio

from props import consumer_engine, group_engine, producer_engine, txn_engine
from simkit import loop as L
from simkit import recfmt, scenario
from simkit.cluster import CLIENT_VERSIONS, NEWEST

PROP = "C11"
LEVEL = "exploration"
RUNS = {"quick": 2400, "thorough": 100000}
SHRINK_LISTS = ()
RUN_TIMEOUT = 300
RULE = ("each evaluation = one simulated execution of a real client against brokers with a seeded per-API "
        "(min,max) version table speaking an independent wire codec; ride-along plans run twice (control = newest "
        "versions, test = random ranges); non-trivial = the advertised table differs from the newest one; distinct = "
        "distinct (workload kind, advertised table, sequence of (api, version) requests seen)")
ENGINES = ("producer", "consumer", "group", "txn")
FEATURES = ("txn_vs_produce", "read_committed_vs_fetch", "read_committed_vs_listoffsets",
            "txn_vs_findcoordinator", "timestamp_search_vs_listoffsets", "disjoint", "hole",
            "flexible_boundary")


def random_table(r, need):
    """Per API a (lo, hi) range that contains at least one version the client speaks and
    satisfies the feature minima in `need` {api_key: min version}."""
    tab = {}
    for key, mine in sorted(CLIENT_VERSIONS.items()):
        if key in (18, 17, 36, 21, 46):
            continue
        mine = sorted(mine)
        cands = [v for v in mine if v >= need.get(key, 0)]
        if not cands:
            continue
        top = r.choice(cands)
        # the broker's max may lie above the chosen version, up to just below the next one the
        # client speaks (so that `top` stays the highest common version)
        nxt = min([v for v in mine if v > top], default=None)
        hi_limit = (nxt - 1) if nxt is not None else top + r.choice([0, 0, 1, 3])
        hi = r.randint(top, max(top, hi_limit))
        lo = r.randint(0, top) if r.random() < 0.7 else 0
        tab[str(key)] = [lo, hi]
    return tab


def gen_plan(seed, index, tier="quick"):
    r = scenario.rng_for(seed, PROP, index)
    if index % 4 == 3:
        feat = FEATURES[(index // 4) % len(FEATURES)]
        spec = {"feature": feat}
        if feat == "flexible_boundary":
            # a flexible-version exchange (request header v2, compact strings / arrays, tagged
            # fields) whose string lengths sit on unsigned-varint boundaries, on a real connection
            from props import conn_engine
            n = r.randint(1, 4)
            reqs = [{"kind": "delrec", "pad_to": r.choice([126, 127, 128, 129, 255, 16382, 16383, 16384]),
                     "gap": 0, "delay": 0.0, "waiter": "await", "cancel_after": 0, "cuts": []}
                    for _ in range(n)]
            return {"format": 1, "prop": PROP, "engine": "conn",
                    "seed": scenario.subseed(seed, PROP, index), "index": index, "mode": "conn",
                    "timeout_ms": 1000, "quirk": False, "corr_start": 0, "bytewise": False,
                    "cluster": {"lat": [0.0001, 0.001], "chunk": "whole"}, "reqs": reqs, "fault": None}
        if feat == "disjoint":
            key = r.choice([3, 0, 1, 2, 10, 11])
            mine = sorted(CLIENT_VERSIONS[key])
            lo = mine[-1] + r.randint(1, 3)
            spec.update({"api": key, "range": [lo, lo + r.randint(0, 2)],
                         "client": {3: "any", 0: "producer", 1: "consumer", 2: "consumer", 10: "group", 11: "group"}[key]})
        elif feat == "hole":
            key, rng = r.choice([(11, [3, 3]), (11, [3, 4]), (11, [4, 4]), (14, [2, 2])])
            spec.update({"api": key, "range": rng, "client": "group"})
        return {"format": 1, "prop": PROP, "engine": "c11feature", "seed": scenario.subseed(seed, PROP, index),
                "index": index, "spec": spec,
                "cluster": {"brokers": r.choice([1, 2]), "topics": {"t0": {"partitions": 2}},
                            "lat": [0.0001, 0.002], "chunk": r.choice(["whole", "random"])}}
    kind = ENGINES[index % 4 if index % 4 < 3 else 0] if index % 8 < 4 else ENGINES[(index % 4 + 1) % 4]
    sub = index * 7919 + 13
    need = {}
    if kind == "producer":
        base = producer_engine.gen_plan("C02", seed, sub, tier, with_faults=False)
        base["cluster"].pop("api_versions", None)
        for pr in base["producers"]:
            pr["stop_after"] = None
            pr["seq_start"] = {}
            if pr["kwargs"]["enable_idempotence"]:
                need[0] = 3
        if any(t.get("ts_type") for t in base["cluster"]["topics"].values()):
            need[0] = max(need.get(0, 0), 2)
    elif kind == "consumer":
        # plain logs (C03 shapes) or transactional logs at both isolation levels (C08 shapes)
        base = consumer_engine.gen_plan("C03" if index % 16 < 8 else "C08", seed, sub, tier)
        base["faults"] = []
        base["cluster"].pop("api_versions", None)
        if base["consumer"]["kwargs"].get("isolation_level") == "read_committed":
            need[1], need[2] = 4, 2
    elif kind == "group":
        base = group_engine.gen_plan("C06", seed, sub, tier)
        base["faults"], base["env"] = [], []
        base["cluster"].pop("api_versions", None)
        if any(m.get("static") for m in base["members"]):
            need[11] = 5
        need[3] = 0
    else:
        base = txn_engine.gen_plan_c07(seed, sub, tier)
        base["faults"], base["env"] = [], []
        need.update({0: 3, 10: 1})
    table = random_table(r, need)
    by_node = None
    if base["cluster"].get("brokers", 1) > 1 and r.random() < 0.5:
        # a cluster in the middle of a rolling upgrade: every broker advertises its own ranges
        by_node = {str(n): random_table(r, need) for n in range(1, base["cluster"]["brokers"] + 1)}
    return {"format": 1, "prop": PROP, "engine": "c11ride", "seed": base["seed"], "index": index,
            "kind": kind, "base": base, "table": table, "by_node": by_node}


# ------------------------------------------------------------------------------------


def _run_base(kind, base):
    if kind == "producer":
        return producer_engine.execute(base)
    if kind == "consumer":
        return consumer_engine.execute(base)
    if kind == "group":
        return group_engine.execute(base)
    return txn_engine.execute(base)


def execute(plan):
    if plan["engine"] == "c11feature":
        return execute_feature(plan)
    if plan["engine"] == "conn":
        from props import conn_engine
        res = conn_engine.execute(plan)
        vio = []
        for v in res.get("violations", []):
            d = dict(v[2]) if isinstance(v[2], dict) else {"data": v[2]}
            d["pad_to"] = [q.get("pad_to") for q in plan["reqs"]]
            if v[0] == "C11":
                vio.append(["C11", v[1], d])
            elif v[0] == "C12":
                vio.append(["C11", "flexible_version_exchange_failed", dict(d, clause=v[1])])
        res["violations"] = vio
        res["nontrivial"] = True
        return res
    kind = plan["kind"]
    control = dict(plan["base"])
    control["cluster"] = dict(control["cluster"])
    control["cluster"].pop("api_versions", None)
    rc = _run_base(kind, control)
    test = dict(plan["base"])
    test["cluster"] = dict(test["cluster"], api_versions=plan["table"])
    if plan.get("by_node"):
        test["cluster"]["api_versions_by_node"] = plan["by_node"]
    rt = _run_base(kind, test)
    res = rt
    res["subruns"] = 2
    res["virt"] = (rt.get("virt") or 0) + (rc.get("virt") or 0)
    vio = []
    base_prop = plan["base"]["prop"]
    ctrl_bad = [v for v in rc.get("violations", []) if v[0] in (base_prop, "C11")] or rc["status"] not in ("ok",)
    for v in rt.get("violations", []):
        if v[0] == "C11":
            d = dict(v[2]) if isinstance(v[2], dict) else {"data": v[2]}
            d["table"] = plan["table"]
            d["workload"] = kind
            vio.append(["C11", v[1], d])
    test_bad = [v for v in rt.get("violations", []) if v[0] == base_prop]
    if (test_bad or rt["status"] not in ("ok",)) and not ctrl_bad:
        first = test_bad[0] if test_bad else [base_prop, rt["status"], {"detail": str(rt.get("detail"))[:300]}]
        vio.append(["C11", "workload_fails_only_under_version_range", {
            "workload": kind, "table": plan["table"], "failing_clause": f"{first[0]}/{first[1]}",
            "failing_data": {k: (str(x)[:200]) for k, x in (first[2] or {}).items()} if isinstance(first[2], dict) else str(first[2])[:300],
            "n": len(test_bad)}])
    if not ctrl_bad and rt["status"] == "ok" and rc["status"] == "ok":
        # what the applications saw: an error class that only shows up under the restricted
        # version table, or nothing delivered at all where the control delivered
        extra = sorted(set(rt.get("app_errors") or []) - set(rc.get("app_errors") or []))
        extra = [e for e in extra if e.startswith("poller_died") or e in (
            "NotImplementedError", "UnsupportedVersionError", "IncompatibleBrokerVersion", "KafkaError")]
        if extra:
            vio.append(["C11", "application_error_only_under_version_range", {
                "workload": kind, "table": plan["table"], "errors": extra}])
        # (a handful of records can come down to timing: a poll that times out a little earlier
        # under another Metadata / Fetch version)
        if (rc.get("ndelivered") or 0) >= 8 and rt.get("ndelivered") == 0:
            vio.append(["C11", "nothing_delivered_under_version_range", {
                "workload": kind, "table": plan["table"], "control_delivered": rc.get("ndelivered")}])
    if rt["status"] not in ("ok", "spin") and not ctrl_bad:
        res["status"] = "ok"  # reported as a violation above, not as a harness problem
    elif rc["status"] not in ("ok", "spin"):
        res["status"], res["detail"] = rc["status"], rc.get("detail")
    res["violations"] = vio
    res["nontrivial"] = any(tuple(v) != tuple(NEWEST.get(int(k), ())) for k, v in plan["table"].items())
    res["sig"] = f"{kind}:{sorted(plan['table'].items())}:{rt.get('sig')}"
    return res


# ------------------------------------------------------------------------------------
# feature runs


def execute_feature(plan):
    from aiokafka import AIOKafkaConsumer, AIOKafkaProducer
    from aiokafka import errors as Errors
    from aiokafka.structs import TopicPartition

    spec = plan["spec"]
    feat = spec["feature"]
    api = {}
    if feat == "txn_vs_produce":
        api = {"0": [0, 2]}
    elif feat == "read_committed_vs_fetch":
        api = {"1": [0, 3]}
    elif feat == "read_committed_vs_listoffsets":
        api = {"2": [0, 1]}
    elif feat == "txn_vs_findcoordinator":
        api = {"10": [0, 0]}
    elif feat == "timestamp_search_vs_listoffsets":
        api = {"2": [0, 0]}
    else:
        api = {str(spec["api"]): spec["range"]}
    plan = dict(plan)
    plan["cluster"] = dict(plan["cluster"], api_versions=api)
    world, cl = scenario.make_world(plan)
    part = cl.partition("t0", 0)
    recs = [(i, 1_600_000_000_000 + i, None, f"t0-0@{i}".encode(), ()) for i in range(5)]
    part.add_stored(recfmt.encode_v2(0, recs))
    out = {"calls": [], "delivered": 0}
    writes = []

    def on_write(conn, req):
        writes.append((req.name, req.api_version, req.body))

    world.subscribe("client_write", on_write)
    B = 6.0

    async def call(name, coro, bound=B):
        t = asyncio.ensure_future(coro)
        done, _ = await asyncio.wait([t], timeout=bound)
        if not done:
            t.cancel()
            out["calls"].append((name, "hang", None))
            return "hang", None
        exc = t.exception()
        out["calls"].append((name, "ok" if exc is None else "raised", type(exc).__name__ if exc else None))
        return ("ok", t.result()) if exc is None else ("raised", exc)

    async def main():
        L.OWNER.set("c0")
        kw = {"bootstrap_servers": cl.bootstrap(), "client_id": "c0", "request_timeout_ms": 1000,
              "retry_backoff_ms": 20}
        client_kind = spec.get("client")
        if feat in ("txn_vs_produce", "txn_vs_findcoordinator") or client_kind == "producer" \
                or (client_kind == "any" and plan["index"] % 8 < 4):
            txn = feat.startswith("txn")
            p = AIOKafkaProducer(**kw, **({"transactional_id": "tx0"} if txn else {}))
            how, _ = await call("start", p.start())
            if how == "ok":
                if txn:
                    how, _ = await call("begin", p.begin_transaction())
                how, fut = await call("send", p.send("t0", b"v", partition=0))
                if how == "ok":
                    await call("send_result", asyncio.wait_for(fut, B))
                if txn:
                    await call("commit", p.commit_transaction(), 3.0)
            await call("stop", p.stop(), 20.0)
        else:
            ckw = dict(kw, auto_offset_reset="earliest", fetch_max_wait_ms=50)
            if feat.startswith("read_committed"):
                ckw["isolation_level"] = "read_committed"
            if feat == "read_committed_vs_listoffsets":
                ckw["auto_offset_reset"] = "latest"
            tp = TopicPartition("t0", 0)
            if client_kind == "group":
                c = AIOKafkaConsumer("t0", group_id="g", session_timeout_ms=1000, heartbeat_interval_ms=200,
                                     rebalance_timeout_ms=1000, **ckw)
            else:
                c = AIOKafkaConsumer(**ckw)
                c.assign([tp])
            how, _ = await call("start", c.start())
            if how == "ok":
                if feat == "timestamp_search_vs_listoffsets":
                    await call("offsets_for_times", c.offsets_for_times({tp: 1_600_000_000_002}))
                t_end = world.now() + 2.0
                while world.now() < t_end:
                    try:
                        res = await c.getmany(timeout_ms=100)
                        out["delivered"] += sum(len(v) for v in res.values())
                    except Errors.KafkaError as exc:
                        out["calls"].append(("getmany", "raised", type(exc).__name__))
                        await asyncio.sleep(0.05)
            await call("stop", c.stop(), 20.0)

    res = scenario.run(plan, world, main)
    res["nontrivial"] = True
    if res["status"] == "ok":
        data = {"feature": feat, "advertised": api, "calls": out["calls"][:8]}
        hung = [c for c in out["calls"] if c[1] == "hang"]
        if hung:
            world.violation(PROP, "call_hangs_instead_of_failing_on_incompatible_broker", dict(data, hung=hung))
        if feat == "txn_vs_produce":
            bad = [w for w in writes if w[0] == "Produce" and w[1] <= 2]
            if bad:
                world.violation(PROP, "transactional_id_silently_dropped", dict(data, version=bad[0][1]))
            if not any(c[0] in ("send", "send_result", "commit", "start") and c[1] == "raised" for c in out["calls"]):
                world.violation(PROP, "no_error_for_inexpressible_parameter", data)
        elif feat == "read_committed_vs_fetch":
            bad = [w for w in writes if w[0] == "Fetch"]
            if bad:
                world.violation(PROP, "isolation_level_silently_dropped", dict(data, api="Fetch", version=bad[0][1]))
            if out["delivered"]:
                world.violation(PROP, "records_delivered_without_requested_isolation", dict(data, n=out["delivered"]))
        elif feat == "read_committed_vs_listoffsets":
            bad = [w for w in writes if w[0] == "ListOffsets"]
            if bad:
                world.violation(PROP, "isolation_level_silently_dropped", dict(data, api="ListOffsets", version=bad[0][1]))
        elif feat == "txn_vs_findcoordinator":
            bad = [w for w in writes if w[0] == "FindCoordinator" and w[2].get("key") == "tx0"]
            if bad:
                world.violation(PROP, "coordinator_type_silently_dropped", dict(data, version=bad[0][1]))
            if not any(c[1] == "raised" for c in out["calls"]):
                world.violation(PROP, "no_error_for_inexpressible_parameter", data)
        elif feat == "timestamp_search_vs_listoffsets":
            bad = [w for w in writes if w[0] == "ListOffsets" and w[1] == 0
                   and any(p.get("timestamp", -1) >= 0 for t in w[2]["topics"] for p in t["partitions"])]
            if bad:
                world.violation(PROP, "timestamp_search_sent_with_version_that_cannot_express_it", data)
            oft = [c for c in out["calls"] if c[0] == "offsets_for_times"]
            if oft and oft[0][1] == "ok":
                world.violation(PROP, "no_error_for_inexpressible_parameter", data)
        else:
            key = spec["api"]
            lo, hi = spec["range"]
            bad = [w for w in writes if _key_of(w[0]) == key]
            if bad:
                world.violation(PROP, "request_sent_without_common_version",
                                dict(data, api=bad[0][0], version=bad[0][1]))
        # the monitor's own findings in this run already carry the C11 tag
    scenario.finish(res, world, (feat, str(api), tuple((w[0], w[1]) for w in writes[:40])))
    return res


def _key_of(name):
    from simkit import wire
    for k, n in wire.NAMES.items():
        if n == name:
            return k
    return None
