"""C13 - consumption starts at the committed offset, else per auto_offset_reset.

Two engines: group-less consumers (no committed offset: reset policy, seeks,
out-of-range) and group members (committed offset absent / inside / beyond)."""
from props import consumer_engine as CE
from props import group_engine as GE

PROP = "C13"
LEVEL = "exploration"
RUNS = {"quick": 2500, "thorough": 100000}
SHRINK_LISTS = ("faults", "tasks", "ops", "appends", "descs", "env", "members", "logs")
SHRINK_MIN = {"members": 1}
RUN_TIMEOUT = 300


def gen_plan(seed, index, tier="quick"):
    if index % 4 == 3:
        return GE.gen_plan(PROP, seed, index, tier)
    return CE.gen_plan(PROP, seed, index, tier)


def execute(plan):
    if plan["engine"] == "group":
        return GE.execute(plan)
    return CE.execute(plan)
