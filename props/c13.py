"""C13 - start position / reset policy (group-less part; group part in group engine)."""
from props import consumer_engine as E

PROP = "C13"
LEVEL = "exploration"
RUNS = {"quick": 2500, "thorough": 100000}
SHRINK_LISTS = ("faults", "tasks", "ops", "appends", "descs")


def gen_plan(seed, index, tier="quick"):
    return E.gen_plan(PROP, seed, index, tier)


def execute(plan):
    return E.execute(plan)
