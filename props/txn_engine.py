"""Transaction engine: real transactional AIOKafkaProducer(s) against the
transaction-coordinator model.  Serves C07 (atomicity + protocol order under
faults / crashes) and C16 (the API as a strict state machine: enumerated call
programs x single faults against a reference model)."""
from __future__ import annotations

import asyncio
import itertools

from simkit import loop as L
from simkit import scenario

TXN_APIS = ("AddPartitionsToTxn", "AddOffsetsToTxn", "TxnOffsetCommit", "EndTxn")
RETRIABLE = {
    "InitProducerId": [14, 15, 16, 51],
    "AddPartitionsToTxn": [14, 15, 16, 51, 3],
    "AddOffsetsToTxn": [14, 15, 16, 51],
    "TxnOffsetCommit": [14, 15, 16, 3, 7],
    "EndTxn": [14, 15, 16, 51],
    "FindCoordinator": [15],
    "Produce": [6, 5, 3, 7, 19, 20],
}
ABORTABLE = {"AddPartitionsToTxn": [29], "AddOffsetsToTxn": [30], "TxnOffsetCommit": [30]}
FATAL = {
    "AddPartitionsToTxn": [47, 53], "AddOffsetsToTxn": [47, 53], "TxnOffsetCommit": [47, 53],
    "EndTxn": [47], "Produce": [47, 45],
}
ABORTABLE_EXC = ("TopicAuthorizationFailedError", "GroupAuthorizationFailedError")
FATAL_EXC = ("ProducerFenced", "OutOfOrderSequenceNumber", "TransactionalIdAuthorizationFailed")
OPS = ("begin", "send0", "send1", "offsets", "commit", "abort", "ctx_ok", "ctx_exc")


# ------------------------------------------------------------------------------------
# plan generation: C07


def gen_plan_c07(seed, index, tier="quick"):
    r = scenario.rng_for(seed, "C07", index)
    nbrokers = r.choice([1, 2, 3, 3])
    nparts = r.randint(1, 3)
    cluster = {
        "brokers": nbrokers, "topics": {"t0": {"partitions": nparts}},
        "lat": [0.0001, r.choice([0.0005, 0.003, 0.02])],
        "chunk": r.choice(["whole", "random"]),
        "service_time": r.choice([0.0, 0.0005, 0.005]),
        "marker_delay": r.choice([[0.001, 0.005], [0.001, 0.03], [0.05, 0.3]]),
    }
    nprod = r.choice([1, 1, 2])
    serial = itertools.count(1)

    def mk_txns(pi, inc, n):
        txns = []
        for ti in range(n):
            tasks = []
            for tk in range(r.choice([1, 1, 2])):
                ops = []
                for _ in range(r.randint(1, 4)):
                    ops.append({"p": r.randrange(nparts), "n": r.randint(1, 3),
                                "think": r.choice([0, 0, 0.001, 0.01]),
                                "pad": r.choice([0, 0, 40])})
                tasks.append(ops)
            offsets = None
            if r.random() < 0.4:
                offsets = {str(p): next(serial) * 10 for p in r.sample(range(nparts), r.randint(1, nparts))}
                if r.random() < 0.2:
                    tasks = []  # a consume-transform-produce round whose output was filtered out
            racer = None
            if r.random() < 0.25:
                # a task that keeps sending while the main task goes on to commit / abort
                racer = {"p": r.randrange(nparts), "n": r.randint(2, 12), "pad": r.choice([0, 40, 120]),
                         "start": r.choice([0.0, 0.001, 0.01])}
            txns.append({"tasks": tasks, "offsets": offsets, "racer": racer,
                         "offsets_first": r.random() < 0.3,
                         "end": "commit" if r.random() < 0.7 else "abort",
                         "via": r.choice(["calls", "calls", "ctx"]),
                         "think": r.choice([0, 0, 0.005, 0.05])})
        return txns

    producers = []
    for pi in range(nprod):
        kwargs = {
            "request_timeout_ms": r.choice([500, 1000, 2000]),
            "retry_backoff_ms": r.choice([10, 20, 50, 100]),
            "linger_ms": r.choice([0, 0, 5, 20]),
            "max_batch_size": r.choice([200, 1000, 4000]),
            "compression_type": r.choice([None, None, "gzip", "lz4"]),
            "metadata_max_age_ms": r.choice([300, 1000, 300000]),
        }
        producers.append({"id": f"p{pi}", "tid": f"tx{pi}", "group": f"g{pi}", "kwargs": kwargs,
                          "start_at": 0.0, "txns": mk_txns(pi, 0, r.randint(1, 6))})
    env = []
    if r.random() < 0.35:
        victim = r.randrange(nprod)
        kind = r.choice(["kill", "restart", "restart", "zombie"])
        if r.random() < 0.6:
            trig = {"request": r.choice(["EndTxn", "EndTxn", "AddPartitionsToTxn", "Produce",
                                         "TxnOffsetCommit", "AddOffsetsToTxn"]),
                    "nth": r.randint(1, 4), "client": f"p{victim}",
                    "when": r.choice(["arrival", "arrival", "response"])}
        else:
            trig = {"at": round(r.uniform(0.02, 1.5), 3)}
        ev = {"do": kind, "producer": f"p{victim}", "on": trig}
        if kind in ("restart", "zombie"):
            ev["delay"] = r.choice([0.0, 0.01, 0.2, 1.0])
            ev["txns"] = mk_txns(victim, 1, r.randint(1, 3))
        if kind == "zombie":
            ev["stall"] = r.choice([0.5, 2.0, 5.0])
        env.append(ev)
    faults = []
    if r.random() < 0.7:
        apis = list(RETRIABLE)
        kinds = ["reply_error", "reply_error", "drop_before_apply", "drop_after_apply",
                 "lose_response", "delay", "coordinator_move", "coordinator_loading",
                 "broker_down", "leader_move", "broker_failover"]
        enabled = r.sample(kinds, r.randint(1, len(kinds)))
        for _ in range(r.randint(1, 6)):
            k = r.choice(enabled)
            api = r.choice(apis)
            trig = {"request": api, "nth": r.randint(1, 8 if api == "Produce" else 4)}
            if k == "reply_error":
                faults.append({"on": trig, "do": {"reply_error": r.choice(RETRIABLE[api])}})
            elif k in ("drop_before_apply", "drop_after_apply"):
                faults.append({"on": trig, "do": {k: r.choice(["eof", "reset"])}})
            elif k == "lose_response":
                faults.append({"on": trig, "do": "lose_response"})
            elif k == "delay":
                faults.append({"on": trig, "do": {"delay": r.choice([0.01, 0.1, 0.4])}})
            elif k == "coordinator_move":
                pi = r.randrange(nprod)
                key = [1, f"tx{pi}", True] if r.random() < 0.7 else [0, f"g{pi}", True]
                faults.append({"on": trig, "do": {"coordinator_move": key}})
            elif k == "coordinator_loading":
                faults.append({"on": trig, "do": {"coordinator_loading": [r.randint(1, nbrokers),
                                                                          r.choice([0.05, 0.3, 1.0])]}})
            elif k == "broker_down":
                faults.append({"on": trig, "do": {"broker_down": [r.randint(1, nbrokers),
                                                                  r.choice([0.1, 0.5])]}})
            elif k == "leader_move":
                faults.append({"on": trig, "do": {"leader_move": ["t0", r.randrange(nparts),
                                                                  r.randint(1, nbrokers)]}})
            elif k == "broker_failover":
                # the broker that is serving this very request dies (its roles move for good)
                faults.append({"on": trig,
                               "do": {"broker_failover": [
                                   r.choice(["serving", "serving_after", r.randint(1, nbrokers)]),
                                   r.choice([0.3, 1.0, 3.0] if nbrokers == 1 else [0.3, 3.0, 30.0, 1e6])]}})
    return {"format": 1, "prop": "C07", "engine": "txn", "mode": "app",
            "seed": scenario.subseed(seed, "C07", index), "index": index, "cluster": cluster,
            "producers": producers, "env": env, "faults": faults}


# ------------------------------------------------------------------------------------
# plan generation: C16 (programs x single faults)


def program_by_number(n):
    """Enumerate programs in length-then-lexicographic order: 0..7 length 1, ..."""
    length = 1
    while n >= len(OPS) ** length:
        n -= len(OPS) ** length
        length += 1
    out = []
    for _ in range(length):
        out.append(OPS[n % len(OPS)])
        n //= len(OPS)
    return out[::-1]


def count_programs(max_len):
    return sum(len(OPS) ** k for k in range(1, max_len + 1))


def gen_plan_c16(seed, index, tier="quick"):
    r = scenario.rng_for(seed, "C16", index)
    n4 = count_programs(4)
    if tier == "quick":
        if index < n4:
            prog = program_by_number(index)
            sweep = "sample"
        else:
            prog = [r.choice(OPS) for _ in range(r.choice([5, 6]))]
            sweep = "sample"
    else:
        n6 = count_programs(6)
        if index < n4:
            prog = program_by_number(index)
            sweep = "all"
        elif index < n6:
            prog = program_by_number(index)
            sweep = "sample"
        else:
            prog = [r.choice(OPS) for _ in range(6)]
            sweep = "all"
    cluster = {
        "brokers": r.choice([1, 2]), "topics": {"t0": {"partitions": 2}, "t1": {"partitions": 1}},
        "lat": [0.0001, r.choice([0.0005, 0.003])], "chunk": r.choice(["whole", "random"]),
        "service_time": r.choice([0.0, 0.0005]),
        "marker_delay": r.choice([[0.001, 0.005], [0.001, 0.03]]),
    }
    kwargs = {"request_timeout_ms": r.choice([500, 1000]), "retry_backoff_ms": r.choice([10, 50]),
              "linger_ms": r.choice([0, 0, 5]), "max_batch_size": 1000}
    return {"format": 1, "prop": "C16", "engine": "txn", "mode": "calls",
            "seed": scenario.subseed(seed, "C16", index), "index": index, "cluster": cluster,
            "producers": [{"id": "p0", "tid": "tx0", "group": "g0", "kwargs": kwargs,
                           "start_at": 0.0, "calls": prog}],
            "env": [], "faults": [], "sweep": sweep, "sweep_n": (8 if index < n4 else 4) if tier == "quick" else 6}


def gen_plan_c07_calls(seed, index, tier="quick"):
    """Mostly well-formed call programs (1-2 transactions) swept over single abortable /
    fatal / retriable faults: the histories of C16, judged here by the C07 oracles
    (read-committed reader, protocol-order monitor)."""
    r = scenario.rng_for(seed, "C07", "calls", index)
    prog = []
    for _ in range(r.choice([1, 2, 2])):
        prog.append("begin")
        for _ in range(r.randint(0, 3)):
            prog.append(r.choice(["send0", "send1", "send0", "offsets"]))
        prog.append(r.choice(["commit", "commit", "abort", "ctx_ok", "ctx_exc"]))
    if r.random() < 0.2:
        prog.insert(r.randrange(len(prog) + 1), r.choice(OPS))
    plan = gen_plan_c16(seed, count_programs(6) + index, tier)
    plan["prop"] = "C07"
    plan["producers"][0]["calls"] = prog
    plan["sweep"] = "all" if tier != "quick" else "sample"
    plan["sweep_n"] = 6
    plan["seed"] = scenario.subseed(seed, "C07", "calls", index)
    return plan


def single_faults(requests, r=None, limit=None):
    """All single faults applicable to the transactional requests a fault-free
    run of the program issued: (api, nth) x class-specific codes."""
    out = []
    counts = {}
    for api in requests:
        counts[api] = counts.get(api, 0) + 1
    for api, n in sorted(counts.items()):
        for nth in range(1, n + 1):
            trig = {"request": api, "nth": nth}
            for code in ABORTABLE.get(api, []):
                out.append({"class": "abortable", "on": trig, "do": {"reply_error": code}})
            for code in FATAL.get(api, []):
                out.append({"class": "fatal", "on": trig, "do": {"reply_error": code}})
            for code in RETRIABLE.get(api, [])[:3]:
                out.append({"class": "retriable", "on": trig, "do": {"reply_error": code}})
            out.append({"class": "retriable", "on": trig, "do": "lose_response"})
            out.append({"class": "retriable", "on": trig, "do": {"drop_before_apply": "reset"}})
            out.append({"class": "retriable", "on": trig, "do": {"drop_after_apply": "eof"}})
    if limit is not None and r is not None and len(out) > limit:
        out = r.sample(out, limit)
    return out


# ------------------------------------------------------------------------------------
# execution


class Rec:
    __slots__ = ("value", "tp", "producer", "txn", "fut", "accept_seq", "error", "ok", "done_seq")


class TxnObs:
    """One application-level transaction (C07) / one begin..end window (C16)."""

    def __init__(self, producer, idx):
        self.producer = producer
        self.idx = idx
        self.records = []
        self.rejected = []
        self.offsets = None
        self.offsets_ok = False
        self.begin_seq = None
        self.end_call = None  # "commit" | "abort"
        self.end_call_seq = None
        self.end_ret_seq = None
        self.outcome = "open"  # open committed aborted commit_raised abort_raised failed hang
        self.error = None
        self.killed = False


def txn_bound(kw):
    rt = kw["request_timeout_ms"] / 1000.0
    bo = kw["retry_backoff_ms"] / 1000.0
    return 3 * (6 * (rt + bo) + 1.0)


def execute(plan):
    if plan["mode"] == "calls" and plan.get("sweep") and "fault_class" not in plan:
        return execute_sweep(plan)
    return execute_one(plan)


def execute_sweep(plan):
    """C16: fault-free run, then single-fault variants of the same program."""
    base = dict(plan)
    base.pop("sweep", None)
    base["fault_class"] = None
    res = execute_one(base)
    requests = res.pop("txn_requests", [])
    r = scenario.rng_for(plan["seed"], "sweep")
    variants = single_faults(requests, r, None if plan["sweep"] == "all" else plan.get("sweep_n", 3))
    sub = 1
    sigs = {res.get("sig")}
    calls = base["producers"][0].get("calls", [])
    if "send1" in calls and "t1" in base["cluster"]["topics"]:
        variants.append({"class": "abortable", "acl": "t1"})
    for f in variants:
        p = dict(base)
        if "acl" in f:
            p["faults"] = []
            p["acl"] = f["acl"]
        else:
            p["faults"] = [{"on": f["on"], "do": f["do"]}]
        p["fault_class"] = f["class"]
        r2 = execute_one(p)
        r2.pop("txn_requests", None)
        sub += 1
        sigs.add(r2.get("sig"))
        for k in ("faults", "probes"):
            for name, n in (r2.get(k) or {}).items():
                res[k][name] = res[k].get(name, 0) + n
        res["virt"] = (res.get("virt") or 0) + (r2.get("virt") or 0)
        if r2["status"] != "ok" and res["status"] == "ok":
            res["status"], res["detail"] = r2["status"], r2.get("detail")
            res["failing_plan"] = p
        for v in r2.get("violations", []):
            if isinstance(v[2], dict):
                v[2]["_replan"] = p
            res["violations"].append(v)
    res["subruns"] = sub
    res["subsigs"] = sorted(s for s in sigs if s)
    res["nontrivial"] = True
    return res


def execute_one(plan):
    from aiokafka import AIOKafkaProducer
    from aiokafka import errors as Errors
    from aiokafka.structs import TopicPartition

    world, cl = scenario.make_world(plan)
    prop = plan["prop"]
    mode = plan["mode"]
    fault_class = plan.get("fault_class")
    if plan.get("acl") and plan["acl"] in cl.topics:
        # the producer may describe the topic but not write to it (Write ACL missing)
        cl.topics[plan["acl"]].writable = False
        world.count_fault("topic_not_writable:" + plan["acl"])
    txm = cl.txns
    if plan.get("c01_monitors"):
        # the C01 request-ledger clauses hold for a transactional producer as well (never two
        # batches of a partition in flight, consecutive sequences): same monitors, C01 verdicts
        from props import producer_engine as _pe
        _pe.InflightMonitor(world, cl)
        _pe.SequenceMonitor(world, cl, {"producers": []})
    obs = {"txns": [], "calls": [], "notes": [], "records": {}}
    state = {"producers": {}, "specs": {}, "killed": set(), "alive": set(), "serial": itertools.count(1)}
    mon = ProtocolMonitor(world, cl, obs, prop)
    txn_requests = []  # API names of transactional requests this run's clients wrote (C16 sweep)

    def on_write(conn, req):
        if req.name in TXN_APIS or req.name == "Produce":
            txn_requests.append(req.name)

    world.subscribe("client_write", on_write)

    def new_value(pid, txn):
        v = f"{pid}/{txn.idx}/{next(state['serial'])}".encode()
        return v

    async def do_send(pid, producer, txn, p, pad=0, topic="t0"):
        value = new_value(pid, txn)
        rec = Rec()
        rec.value, rec.tp, rec.producer, rec.txn = value, (topic, p), pid, txn
        rec.fut = None
        rec.error = rec.done_seq = None
        rec.ok = False
        t_call = world.now()
        try:
            fut = await producer.send(topic, value + b"." * pad, partition=p)
        except Exception as exc:  # noqa: BLE001
            txn.rejected.append((value, repr(exc)))
            obs["records"][value] = rec
            rec.error = exc
            try:
                exc.sim_waited = world.now() - t_call
            except Exception:  # noqa: BLE001
                pass
            raise
        rec.fut = fut
        rec.accept_seq = world.log.add(world.now(), "accepted", pid, txn.idx, value)
        txn.records.append(rec)
        obs["records"][value] = rec
        mon.accepted(pid, rec)

        def done(f, rec=rec):
            rec.done_seq = world.log.add(world.now(), "resolved", pid, rec.value)
            if f.cancelled():
                rec.error = "cancelled"
            elif f.exception() is not None:
                rec.error = f.exception()
            else:
                rec.ok = True

        fut.add_done_callback(done)
        return rec

    # ---------------------------------------------------------------- C07 application
    async def run_app(pid, spec, producer, bound):
        for ti, t in enumerate(spec["txns"]):
            txn = TxnObs(pid, ti)
            obs["txns"].append(txn)
            mon.current[pid] = txn
            how, task = await bounded(world, producer.begin_transaction(), bound)
            if how == "hang" or task.exception() is not None:
                txn.outcome = "hang" if how == "hang" else "failed"
                txn.error = None if how == "hang" else task.exception()
                txn.where = "begin"
                if _is_fatal(txn.error) or how == "hang":
                    return
                continue
            txn.begin_seq = world.log.add(world.now(), "txn_begin", pid, ti)
            txn.begin_t = world.now()
            failed = None
            racer_task = None
            if t.get("racer"):
                rc = t["racer"]

                async def racer_body(rc=rc):
                    await asyncio.sleep(rc["start"])
                    for _ in range(rc["n"]):
                        cur_txn = mon.current.get(pid)
                        try:
                            # a send racing with commit / abort is either refused or belongs to
                            # the transaction that was open when it was accepted
                            await do_send(pid, producer, cur_txn, rc["p"], rc["pad"])
                        except Exception:  # noqa: BLE001
                            world.probe("racing_send_refused")
                            await asyncio.sleep(0.001)

                racer_task = asyncio.ensure_future(racer_body())
                state.setdefault("racers", []).append(racer_task)

            async def offsets_step():
                offs = {TopicPartition("t0", int(p)): o for p, o in t["offsets"].items()}
                txn.offsets = {("t0", int(p)): o for p, o in t["offsets"].items()}
                how, task = await bounded(world, producer.send_offsets_to_transaction(offs, spec["group"]),
                                          bound)
                if how == "hang":
                    return "hang"
                if task.exception() is not None:
                    return task.exception()
                txn.offsets_ok = True
                return None

            if t["offsets"] and t["offsets_first"]:
                failed = await offsets_step()

            async def task_body(ops):
                for op in ops:
                    for _ in range(op["n"]):
                        await do_send(pid, producer, txn, op["p"], op["pad"])
                    if op["think"]:
                        await asyncio.sleep(op["think"])

            if failed is None:
                results = await asyncio.gather(*[task_body(ops) for ops in t["tasks"]],
                                               return_exceptions=True)
                for x in results:
                    if isinstance(x, BaseException):
                        failed = x
                        break
            if failed is None and t["offsets"] and not t["offsets_first"]:
                failed = await offsets_step()
            if t["think"]:
                await asyncio.sleep(t["think"])
            want = t["end"]
            if failed is not None:
                txn.error = failed
                # was a fault in effect at any time while this transaction's calls were running?
                txn.error_during_fault = txn.begin_t <= world.last_fault_effect + 1e-9
                want = "abort"
                world.probe("app_aborts_after_error")
                if failed == "hang":
                    txn.outcome = "hang"
                    txn.where = "offsets"
                    return
                if _is_fatal(failed):
                    txn.outcome = "failed"
                    return
            txn.end_call = want
            txn.end_call_seq = world.log.add(world.now(), "txn_end_call", pid, ti, want)
            call = producer.commit_transaction() if want == "commit" else producer.abort_transaction()
            how, task = await bounded(world, call, bound)
            txn.end_ret_seq = world.log.add(world.now(), "txn_end_ret", pid, ti, how)
            if how == "hang":
                txn.outcome = "hang"
                txn.where = want
                return
            if racer_task is not None:
                await asyncio.wait([racer_task], timeout=bound)
            exc = task.exception()
            if exc is None:
                txn.outcome = "committed" if want == "commit" else "aborted"
                if failed is not None:
                    txn.outcome = "aborted"
            else:
                txn.error = exc
                txn.outcome = "commit_raised" if want == "commit" else "abort_raised"
                if _is_fatal(exc):
                    return
                # an application aborts a transaction whose commit failed
                how, task = await bounded(world, producer.abort_transaction(), bound)
                if how == "hang":
                    txn.where = "abort_after_commit_error"
                    txn.hang_after = True
                    return
                if task.exception() is not None and _is_fatal(task.exception()):
                    return

    # ---------------------------------------------------------------- C16 raw calls
    async def run_calls(pid, spec, producer, bound):
        model = RefModel()
        ctx = producer.transaction()
        orphan = TxnObs(pid, -1)
        orphan.outcome = "never_committed"
        obs["txns"].append(orphan)
        box = {"cur": None}

        async def one(op, recovering=False):
            cur = box["cur"]
            seq0 = world.log.add(world.now(), "call", pid, op)
            it0 = world.loop.iters
            pre = model.snapshot()
            coord0 = _coord_snapshot(txm, spec["tid"])
            off = None
            if op == "begin":
                coro = producer.begin_transaction()
            elif op in ("send0", "send1"):
                # send0 -> t0/0, send1 -> t1/0 (a second topic, so that one AddPartitionsToTxn
                # request can carry an authorised and an unauthorised topic)
                if op == "send0" or "t1" not in cl.topics:
                    coro = do_send(pid, producer, cur if cur is not None else orphan,
                                   0 if op == "send0" else 1)
                else:
                    coro = do_send(pid, producer, cur if cur is not None else orphan, 0, topic="t1")
            elif op == "offsets":
                off = next(state["serial"]) * 10
                coro = producer.send_offsets_to_transaction({TopicPartition("t0", 0): off},
                                                            spec["group"])
            elif op == "commit":
                coro = producer.commit_transaction()
            elif op == "abort":
                coro = producer.abort_transaction()
            elif op == "ctx_ok":
                coro = ctx.__aexit__(None, None, None)
            elif op == "ctx_exc":
                e = RuntimeError("application error")
                coro = ctx.__aexit__(RuntimeError, e, None)
            else:
                raise ValueError(op)
            if op in ("commit", "ctx_ok") and cur is not None:
                cur.end_call = "commit"
                cur.end_call_seq = seq0
            how, task = await bounded(world, coro, bound)
            seq1 = world.log.add(world.now(), "call_end", pid, op, how)
            exc = None if how == "hang" else task.exception()
            outcome = "hang" if how == "hang" else ("ok" if exc is None else "raised")
            call = {"op": op, "outcome": outcome, "exc": type(exc).__name__ if exc else None,
                    "exc_repr": repr(exc)[:160] if exc else None, "seq0": seq0, "seq1": seq1,
                    "it0": it0, "it1": world.loop.iters, "model_before": pre,
                    "coord_before": coord0, "coord_after": _coord_snapshot(txm, spec["tid"]),
                    "recovering": recovering}
            obs["calls"].append(call)
            # ---- transaction windows for the atomicity reader
            if op == "begin" and outcome == "ok":
                cur = box["cur"] = TxnObs(pid, len(obs["txns"]))
                cur.begin_seq = seq1
                obs["txns"].append(cur)
                mon.current[pid] = cur
            elif op == "offsets" and cur is not None:
                if outcome == "ok":
                    cur.offsets = dict(cur.offsets or {})
                    cur.offsets[("t0", 0)] = off
                    cur.offsets_ok = True
                else:
                    cur.offsets_failed = {("t0", 0): off}
            elif op in ("commit", "ctx_ok") and cur is not None:
                cur.end_ret_seq = seq1
                if outcome == "ok":
                    cur.outcome = "committed"
                    box["cur"] = None
                elif outcome == "raised":
                    cur.error = exc
                    cur.commit_raised = True  # stays open until aborted
                else:
                    cur.outcome = "hang"
            elif op in ("abort", "ctx_exc") and cur is not None:
                if outcome == "ok":
                    if op == "ctx_exc" and pre["state"] == "FATAL":
                        cur.outcome = "failed"
                    else:
                        cur.outcome = "aborted"
                    cur.end_call = "abort"
                    box["cur"] = None
                elif outcome == "raised":
                    cur.error = exc
                    cur.abort_raised = True
                else:
                    cur.outcome = "hang"
                    cur.end_call = "abort"
            model.step(op, call)
            return call

        for op in spec["calls"]:
            call = await one(op)
            if call["outcome"] == "hang":
                obs["notes"].append(("call_hang", op))
                return
        if fault_class == "abortable":
            # after an abortable error: abort (if a transaction is open), then a fresh
            # transaction must succeed.  An abort that was in progress when the error
            # reply arrived may itself raise that error; the next one must succeed.
            for _ in range(2):
                if model.state in ("IN_TXN", "ABORTABLE"):
                    call = await one("abort", recovering=True)
                    if call["outcome"] == "hang":
                        return
            for op in ("begin", "send0", "commit"):
                call = await one(op, recovering=True)
                if call["outcome"] == "hang":
                    return
        obs["model_final"] = model.state

    # ---------------------------------------------------------------- producer life cycle
    async def run_producer(spec, cid):
        L.OWNER.set(cid)
        kwargs = dict(spec["kwargs"])
        bound = txn_bound(kwargs)
        producer = AIOKafkaProducer(bootstrap_servers=cl.bootstrap(), client_id=cid,
                                    transactional_id=spec["tid"], **kwargs)
        state["producers"][cid] = producer
        state["specs"][cid] = spec
        state["alive"].add(cid)
        how, task = await bounded(world, producer.start(), bound)
        if how == "hang" or task.exception() is not None:
            obs["notes"].append(("start_failed", cid, how, repr(task.exception()) if how != "hang" else None))
            if how == "hang" and not plan["env"]:
                world.violation(prop if prop == "C07" else "C07", "producer_start_never_completed",
                                {"producer": cid, "faults": dict(world.fault_counts)})
            task.cancel()
            try:
                await asyncio.wait_for(producer.stop(), bound)
            except BaseException:  # noqa: BLE001
                pass
            state["alive"].discard(cid)
            return
        world.log.add(world.now(), "producer_started", cid)
        try:
            if mode == "app":
                await run_app(cid, spec, producer, bound)
            else:
                await run_calls(cid, spec, producer, bound)
        finally:
            pass
        # let pending futures of the last transaction settle, then stop
        t0 = world.now()
        stop_task = asyncio.ensure_future(producer.stop())
        # (a producer one of whose calls already hung has been judged: do not let it retry
        # through ten more bounds of virtual time)
        hung = any(t.producer == cid and (t.outcome == "hang" or getattr(t, "hang_after", False))
                   for t in obs["txns"])
        done, _ = await asyncio.wait([stop_task], timeout=(1 if hung else 10) * bound)
        if not done:
            obs["notes"].append(("stop_hang", cid))
            world.probe("stop_hang")
            world.loop.kill(cid)
        state["alive"].discard(cid)
        _ = t0

    tasks = {}

    def start_producer(spec, cid):
        if cid != spec["id"]:
            state["scheduled"] -= 1
        tasks[cid] = asyncio.ensure_future(run_producer(spec, cid))

    def kill(cid):
        if cid in state["killed"] or cid not in state["alive"]:
            return False
        state["killed"].add(cid)
        state["alive"].discard(cid)
        world.log.add(world.now(), "kill", cid)
        for t in obs["txns"]:
            if t.producer == cid and t.outcome == "open":
                t.killed = True
                t.kill_seq = world.log.seq
        world.loop.kill(cid)
        for c in world.net.conns:
            if c is not None and c.owner == cid and not c.server_closed:
                c.client_lost = True
                c.server_close("reset")
        world.count_fault("kill")
        return True

    env_fired = {}

    def fire_env(i, ev):
        if env_fired.get(i):
            return
        env_fired[i] = True
        base = ev["producer"]
        cid = base
        if ev["do"] == "kill":
            kill(cid)
        elif ev["do"] == "restart":
            if kill(cid):
                spec = dict(next(p for p in plan["producers"] if p["id"] == base), txns=ev["txns"])
                state["scheduled"] = state.get("scheduled", 0) + 1
                world.later(ev["delay"], start_producer, spec, base + "#1")
                world.count_fault("restart", world.now() + ev["delay"])
        elif ev["do"] == "zombie":
            if cid in state["alive"]:
                world.loop.stall(cid, ev["stall"])
                world.log.add(world.now(), "stall", cid, ev["stall"])
                state.setdefault("zombies", {})[cid] = world.log.seq
                spec = dict(next(p for p in plan["producers"] if p["id"] == base), txns=ev["txns"])
                state["scheduled"] = state.get("scheduled", 0) + 1
                world.later(ev["delay"], start_producer, spec, base + "#1")
                world.count_fault("zombie", world.now() + ev["stall"])

    for i, ev in enumerate(plan["env"]):
        trig = ev["on"]
        if "at" in trig:
            world.at(trig["at"], fire_env, i, ev)
        else:
            cnt = {"n": 0}

            def on_arrival(broker, conn, req, i=i, ev=ev, trig=trig, cnt=cnt):
                if req.name == trig["request"] and req.client_id.split("#")[0] == trig["client"] \
                        and trig["when"] == "arrival":
                    cnt["n"] += 1
                    if cnt["n"] == trig["nth"]:
                        # the request is applied by the model in this very step; the client dies now
                        world.later(0.0, fire_env, i, ev)

            def on_resp(conn, tag, i=i, ev=ev, trig=trig, cnt=cnt):
                if trig["when"] == "response" and isinstance(tag, tuple) and tag[0] == trig["request"] \
                        and (conn.owner or "").split("#")[0] == trig["client"]:
                    cnt["n"] += 1
                    if cnt["n"] == trig["nth"]:
                        fire_env(i, ev)

            world.subscribe("request_arrival", on_arrival)
            world.subscribe("client_response", on_resp)

    async def main():
        for spec in plan["producers"]:
            if spec["start_at"]:
                world.at(spec["start_at"], start_producer, spec, spec["id"])
            else:
                start_producer(spec, spec["id"])
        # wait until every producer task that is not killed has finished
        while True:
            await asyncio.sleep(0.05)
            pend = [cid for cid, t in tasks.items() if not t.done() and cid not in state["killed"]]
            stalled = [cid for cid in pend if cid in world.loop.stalled]
            if not pend and not state.get("scheduled"):
                break
            _ = stalled
        # wait for the coordinator to finish writing markers
        for _ in range(200):
            if not any(t.state in ("PrepareCommit", "PrepareAbort") for t in txm.txns.values()):
                break
            await asyncio.sleep(0.05)
        await asyncio.sleep(0.05)

    res = scenario.run(plan, world, main)
    res["nontrivial"] = bool(world.fault_counts) or len(plan["producers"]) > 1 or mode == "calls"
    res["txn_requests"] = txn_requests
    if res["status"] == "ok":
        oracle_atomicity(plan, world, cl, obs, state)
        mon.finish()
        if mode == "app":
            oracle_liveness_c07(plan, world, obs, state)
        else:
            oracle_c16(plan, world, cl, obs, mon)
    sig = None
    if mode == "calls":
        sig = (tuple(plan["producers"][0]["calls"]), repr(plan.get("faults")),
               tuple((c["op"], c["outcome"], c["exc"]) for c in obs["calls"]))
    scenario.finish(res, world, sig)
    return res


def _is_fatal(exc):
    return exc is not None and not isinstance(exc, str) and type(exc).__name__ in FATAL_EXC


def _coord_snapshot(txm, tid):
    t = txm.txns.get(tid)
    if t is None:
        return None
    return (t.epoch, t.state, tuple(sorted(t.partitions)), tuple(sorted(t.groups)), t.serial)


async def bounded(world, aw, bound):
    task = asyncio.ensure_future(aw)
    t_start = world.now()
    while not task.done():
        deadline = max(world.last_fault_effect, t_start) + bound
        now = world.now()
        if now >= deadline:
            return "hang", task
        await asyncio.wait([task], timeout=min(0.25, deadline - now))
    return "done", task


# ------------------------------------------------------------------------------------
# online protocol-order monitor (C07 request-ledger clauses)


class ProtocolMonitor:
    def __init__(self, world, cl, obs, prop):
        self.world = world
        self.cl = cl
        self.obs = obs
        self.prop = prop
        self.current = {}  # client -> TxnObs
        self.added = {}  # client -> set(tp) acknowledged AddPartitionsToTxn in the current txn
        self.bodies = {}  # (conn id, corr) -> (req, response body)
        self.fault_seen = {}  # client -> seq at which an injected error reply was delivered
        self.fault_iter = {}  # client -> loop iteration count at that moment
        self.fault_iters_all = {}  # client -> iteration counts of all such deliveries
        self.injected = {}  # (conn id, corr) -> True for replies produced by reply_error
        self.recs = {}  # client -> list of Rec of the current transaction window
        self.writes = []  # (seq, client, api)
        world.subscribe("client_write", self.on_write)
        world.subscribe("client_response", self.on_response)
        world.subscribe("response_body", self.on_body)

    def accepted(self, cid, rec):
        self.recs.setdefault(cid, []).append(rec)

    def fault_delivered(self, cid):
        return self.fault_seen.get(cid)

    def on_body(self, conn, req, body, injected):
        self.bodies[(conn.id, req.correlation_id)] = (req, body)
        if injected:
            self.injected[(conn.id, req.correlation_id)] = True

    def on_write(self, conn, req):
        w = self.world
        cid = req.client_id
        self.writes.append((req.seq_write, cid, req.name))
        if req.name == "Produce" and req.body.get("transactional_id") is not None:
            from props.producer_engine import decode_produce
            have = self.added.get(cid, set())
            for tp, batches in decode_produce(req).items():
                if not batches:
                    continue
                if any(b.transactional for b in batches) and tp not in have:
                    w.violation("C07", "produce_before_partition_added_to_transaction", {
                        "client": cid, "tp": list(tp), "acknowledged": sorted(map(list, have)),
                        "t": w.now()})
        elif req.name == "EndTxn":
            pend = [r.value.decode() for r in self.recs.get(cid, []) if r.fut is not None
                    and not r.fut.done()]
            if pend:
                w.violation("C07", "end_txn_with_unacknowledged_batch", {
                    "client": cid, "unresolved": pend[:5], "n": len(pend),
                    "committed": bool(req.body["committed"])})

    def on_response(self, conn, tag):
        if not (isinstance(tag, tuple) and len(tag) == 2):
            return
        ent = self.bodies.pop((conn.id, tag[1]), None)
        if ent is None:
            return
        req, body = ent
        cid = req.client_id
        if self.injected.pop((conn.id, tag[1]), None):
            # (every delivery: with a missing Write ACL each transaction gets its own error reply)
            self.fault_iters_all.setdefault(cid, []).append(self.world.loop.iters)
            if cid not in self.fault_seen:
                self.fault_seen[cid] = self.world.log.seq
                self.fault_iter[cid] = self.world.loop.iters
        if req.name == "AddPartitionsToTxn":
            for t in body["results"]:
                for p in t["results"]:
                    if p["error_code"] == 0:
                        self.added.setdefault(cid, set()).add((t["name"], p["partition"]))
        elif req.name == "EndTxn" and body["error_code"] == 0:
            self.added[cid] = set()
            self.recs[cid] = []

    def finish(self):
        pass


# ------------------------------------------------------------------------------------
# history oracle: read-committed reader vs application outcomes


def read_committed(cl):
    """Independent reader: value -> number of committed-visible occurrences, plus the
    set of values that sit in the log at all (any state)."""
    visible = {}
    present = {}
    for part in cl.all_partitions():
        pending = {}
        for st in part.log:
            b = st.batch
            if b.control:
                key = b.records[0].key if b.records else b"\x00\x00\x00\x00"
                commit = int.from_bytes(key[2:4], "big") == 1
                recs = pending.pop(b.pid, [])
                if commit:
                    for r in recs:
                        visible[r.value] = visible.get(r.value, 0) + 1
                continue
            for r in b.records:
                present[r.value] = present.get(r.value, 0) + 1
            if b.transactional:
                pending.setdefault(b.pid, []).extend(b.records)
            else:
                for r in b.records:
                    visible[r.value] = visible.get(r.value, 0) + 1
    return visible, present


def _strip(v):
    return v.rstrip(b".")


def oracle_atomicity(plan, world, cl, obs, state):
    visible_raw, present_raw = read_committed(cl)
    visible = {}
    for v, n in visible_raw.items():
        visible[_strip(v)] = visible.get(_strip(v), 0) + n
    prop = "C07"
    zombies = state.get("zombies", {})
    # per group/tp: allowed final committed offsets, walking transactions in program order
    allowed = {}
    order = sorted(obs["txns"], key=lambda t: (t.begin_seq is None, t.begin_seq or 0))
    for txn in order:
        vals = [r.value for r in txn.records]
        nvis = [visible.get(v, 0) for v in vals]
        out = txn.outcome
        in_doubt = False
        if txn.killed:
            # killed while commit_transaction() was in progress: all or none;
            # killed earlier: never committed by the application -> none
            in_doubt = txn.end_call == "commit"
            out = "in_doubt" if in_doubt else "never_committed"
        elif out in ("commit_raised", "hang") and txn.end_call == "commit":
            in_doubt = True
            out = "in_doubt"
        elif getattr(txn, "commit_raised", False) and out == "open":
            in_doubt = True
            out = "in_doubt"
        data = {"producer": txn.producer, "txn": txn.idx, "outcome": txn.outcome,
                "killed": txn.killed, "n_records": len(vals), "visible_counts": nvis[:8],
                "error": repr(txn.error)[:120] if txn.error is not None else None,
                "faults": dict(world.fault_counts)}
        if out == "committed":
            if any(n != 1 for n in nvis):
                world.violation(prop, "committed_transaction_not_fully_visible_once", data)
        elif in_doubt:
            world.probe("in_doubt_transaction")
            if vals and not (all(n == 0 for n in nvis) or all(n == 1 for n in nvis)):
                world.violation(prop, "in_doubt_transaction_partially_visible", data)
        else:
            if any(n != 0 for n in nvis):
                world.violation(prop, "uncommitted_transaction_visible", data)
        for value, why in txn.rejected:
            if present_raw.get(value, 0) or any(_strip(k) == value for k in present_raw):
                world.violation(prop, "rejected_send_reached_the_log", {"value": value.decode(), "why": why})
        # offsets
        offs = txn.offsets or getattr(txn, "offsets_failed", None)
        if offs:
            group = next(p["group"] for p in plan["producers"] if p["id"] == txn.producer.split("#")[0])
            for tp, o in offs.items():
                cur = allowed.setdefault((group, tp), {None})
                if out == "committed" and txn.offsets_ok:
                    allowed[(group, tp)] = {o}
                elif in_doubt and txn.offsets_ok:
                    cur.add(o)
                # aborted / failed / never committed: must not appear -> not added
    for (group, tp), ok in allowed.items():
        got = cl.group_offsets.get(group, {}).get(tp)
        got = got[0] if got is not None else None
        if got not in ok:
            world.violation(prop, "group_offsets_differ_from_committed_transactions", {
                "group": group, "tp": list(tp), "stored": got,
                "allowed": sorted(x for x in ok if x is not None), "none_allowed": None in ok})
    # nothing in the log that no send() accepted
    for v in present_raw:
        if _strip(v) not in obs["records"]:
            world.violation(prop, "appended_record_never_sent", {"value": v[:60].decode("latin1")})
    _ = zombies


def oracle_liveness_c07(plan, world, obs, state):
    """With only retriable faults every transaction ends the way the application asked."""
    zombies = state.get("zombies", {})
    for txn in obs["txns"]:
        if txn.killed or txn.producer in state["killed"]:
            continue
        # a stalled producer whose replacement started meanwhile is fenced: whatever
        # it had open at the stall, or begins afterwards, may legitimately fail
        # (either instance: whichever ran InitProducerId last fences the other)
        zs = zombies.get(txn.producer.split("#")[0])
        fenced_ok = zs is not None and (txn.end_ret_seq is None or txn.end_ret_seq > zs)
        data = {"producer": txn.producer, "txn": txn.idx, "outcome": txn.outcome,
                "where": getattr(txn, "where", None), "error": repr(txn.error)[:160] if txn.error is not None else None,
                "faults": dict(world.fault_counts), "now": world.now(),
                "last_fault_effect": world.last_fault_effect}
        if txn.outcome == "hang" or getattr(txn, "hang_after", False):
            if fenced_ok:
                continue
            world.violation("C07", "transaction_call_never_returned", data)
        elif txn.outcome in ("commit_raised", "abort_raised", "failed"):
            if fenced_ok:
                world.probe("zombie_fenced")
                continue
            world.violation("C07", "transaction_failed_on_retriable_faults", data)
        elif txn.outcome == "aborted" and txn.error is not None:
            # the application had to abort because a send / offsets call raised
            if fenced_ok:
                continue
            rt_s = next((sp["kwargs"]["request_timeout_ms"] / 1000 for sp in plan["producers"]
                         if sp["id"] == txn.producer.split("#")[0]), 0.0)
            if type(txn.error).__name__ == "KafkaTimeoutError" and (
                    world.fault_counts or getattr(txn.error, "sim_waited", 0.0) >= rt_s - 1e-3):
                # (without a fault too: tiny batches on a slow link - the call really waited
                # request_timeout_ms for room in the accumulator)
                # documented back-pressure: send() could not schedule the record within
                # request_timeout_ms while a fault held the partition's batches up; the
                # application aborted, and that abort succeeded
                world.probe("send_backpressure_timeout")
                continue
            if getattr(txn, "error_during_fault", False) and type(txn.error).__name__ in (
                    "UnknownTopicOrPartitionError", "KafkaConnectionError", "NodeNotReadyError",
                    "RequestTimedOutError"):
                # send() gave up waiting for the topic's metadata (documented, after
                # request_timeout_ms) while the brokers were still unreachable: the property
                # speaks about how the transaction ends "once the faults cease", and the abort
                # the application then asked for succeeded
                world.probe("send_failed_while_cluster_unreachable")
                continue
            world.violation("C07", "transactional_call_failed_on_retriable_faults", data)
        elif txn.outcome == "open" and txn.producer not in state["killed"]:
            world.violation("C07", "transaction_left_open", data)
    for r in obs["records"].values():
        txn = r.txn
        if r.fut is None or txn.killed or txn.producer in state["killed"]:
            continue
        if txn.outcome == "committed" and not r.ok:
            world.violation("C07", "record_future_not_successful_in_committed_transaction", {
                "value": r.value.decode(), "error": repr(r.error)[:120], "done": r.fut.done()})


# ------------------------------------------------------------------------------------
# C16 reference model + oracle


class RefModel:
    """The documented transactional API as a state machine (READY / IN_TXN /
    ABORTABLE / FATAL), advanced on observed outcomes; expect() is its prediction."""

    def __init__(self):
        self.state = "READY"

    def snapshot(self):
        return {"state": self.state}

    def expect(self, op):
        s = self.state
        if s == "FATAL":
            return "ok" if op == "ctx_exc" else "raise"
        if s == "READY":
            return "ok" if op == "begin" else "raise"
        if s == "IN_TXN":
            return "raise" if op == "begin" else "ok"
        if s == "ABORTABLE":
            return "ok" if op in ("abort", "ctx_exc") else "raise"
        raise AssertionError(s)

    def step(self, op, call):
        out, exc = call["outcome"], call["exc"]
        call["expected"] = self.expect(op)
        if exc in FATAL_EXC:
            self.state = "FATAL"
            return
        if exc in ABORTABLE_EXC and self.state in ("IN_TXN", "ABORTABLE"):
            self.state = "ABORTABLE"
            return
        if out != "ok":
            return
        if self.state == "READY" and op == "begin":
            self.state = "IN_TXN"
        elif self.state == "IN_TXN" and op in ("commit", "ctx_ok", "abort", "ctx_exc"):
            self.state = "READY"
        elif self.state == "ABORTABLE" and op in ("abort", "ctx_exc"):
            self.state = "READY"


def oracle_c16(plan, world, cl, obs, mon):
    """Judge every call of the program against the reference model.

    Fault classes: None / retriable -> the fault-free prediction holds for every call.
    abortable / fatal -> an error reply was injected into one transactional request;
    from the moment it has been delivered to the client (plus GRACE loop iterations:
    the reply still has to travel from the socket to the transaction manager) the
    producer must behave as the documented ABORTABLE / FATAL state demands; a call that
    was in progress at that moment may raise that error or complete."""
    GRACE = 25
    fc = plan.get("fault_class")
    spec = plan["producers"][0]
    calls = obs["calls"]
    fault_seq = mon.fault_seen.get(spec["id"])
    fault_it = mon.fault_iter.get(spec["id"])
    base = {"program": spec["calls"], "fault": plan.get("faults"), "fault_class": fc}
    trace = [(c["op"], c["outcome"], c["exc"]) for c in calls]

    def viol(clause, call, **kw):
        d = dict(base)
        d.update({"call": call["op"], "position": calls.index(call), "outcome": call["outcome"],
                  "exc": call["exc_repr"], "model_state": call["model_before"]["state"],
                  "trace": trace})
        d.update(kw)
        world.violation("C16", clause, d)

    def no_effect(c):
        b, a = c["coord_before"], c["coord_after"]
        # (epoch, groups, serial: the partitions of sends accepted *before* this call may still
        # be on their way to the coordinator while it runs)
        # ... which also opens the transaction there: Empty -> Ongoing, serial + 1)
        strip = lambda x: None if x is None else (  # noqa: E731
            x[0], x[3], (x[1].replace("Prepare", "").replace("Complete", "") + str(x[4]))
            if x[1].startswith(("Prepare", "Complete")) else "-")
        sb, sa = strip(b), strip(a)
        changed = sb != sa
        if changed and sb is not None and sa is not None and sb[:2] == sa[:2] and sa[2] == "-":
            changed = False  # re-opened by an AddPartitionsToTxn of an earlier, accepted send
        if changed:
            viol("out_of_order_call_changed_coordinator_state", c, before=repr(b), after=repr(a))
        wr = [api for (s, cid, api) in mon.writes
              if c["seq0"] < s < c["seq1"] and cid == spec["id"]
              and api in ("EndTxn", "AddOffsetsToTxn", "TxnOffsetCommit", "InitProducerId")]
        if wr:
            viol("out_of_order_call_sent_requests", c, requests=wr)

    # a commit / abort that returned normally has ended the transaction at the coordinator
    # as well: otherwise the "new" transaction that follows is the old one continued
    for c in calls:
        if c["op"] in ("commit", "abort", "ctx_ok", "ctx_exc") and c["outcome"] == "ok" \
                and fc != "fatal" \
                and c["model_before"]["state"] in ("IN_TXN", "ABORTABLE") \
                and c["coord_after"] is not None and c["coord_after"][1] == "Ongoing":
            viol("transaction_still_open_at_coordinator_after_end_call", c,
                 coordinator=repr(c["coord_after"]))
    # a commit that returned normally vouches for every send of its transaction: whatever
    # error (abortable or fatal) failed one of them must have failed the commit as well
    for r in obs["records"].values():
        txn = r.txn
        if r.fut is None or r.accept_seq is None or txn is None or txn.outcome != "committed":
            continue
        if not r.fut.done() or not r.ok:
            world.violation("C16", "commit_returned_although_a_send_of_the_transaction_failed",
                            dict(base, value=r.value.decode(), done=r.fut.done(),
                                 error=repr(r.error)[:120], trace=trace))
            break
    hard = fc in ("abortable", "fatal") and fault_seq is not None
    latent = hard  # the error is known to the producer but no call has surfaced it yet
    for c in calls:
        st = c["model_before"]["state"]
        exp = c["expected"]
        if c["outcome"] == "hang":
            viol("call_never_returned", c)
            continue
        # position of the call relative to the delivery of the injected error reply
        if not hard or c["it1"] < fault_it:
            rel = "before"
        elif c["it0"] >= fault_it + GRACE:
            rel = "after"
        else:
            rel = "during"
        # a later error reply of the same kind (the ACL is still missing in the next
        # transaction) delivered while this call runs: in progress at that moment, too
        later_during = any(f > (fault_it or 0) and c["it0"] - GRACE <= f <= c["it1"]
                           for f in mon.fault_iters_all.get(spec["id"], []))
        if st == "FATAL":
            # a call already surfaced the fatal error
            if c["op"] == "ctx_exc":
                if c["outcome"] != "ok":
                    viol("context_exit_raised_in_fatal_state", c)
            elif c["outcome"] != "raised":
                viol("call_accepted_after_fatal_error", c)
            continue
        if c["exc"] in ABORTABLE_EXC + FATAL_EXC:
            latent_now, latent = latent, False
        else:
            latent_now = latent
        if rel in ("after", "during") and latent_now and fc == "abortable" and st == "IN_TXN" \
                and c["op"] in ("abort", "ctx_exc") and c["outcome"] == "ok":
            latent = False  # the transaction the error belonged to is gone
        if st == "ABORTABLE" or (rel == "after" and latent_now and fc == "abortable" and st == "IN_TXN"):
            if c["op"] in ("commit", "ctx_ok"):
                if c["outcome"] != "raised" or c["exc"] not in ABORTABLE_EXC:
                    viol("commit_did_not_raise_abortable_error", c)
            elif c["op"] in ("abort", "ctx_exc"):
                if c["outcome"] != "ok" and later_during and c["exc"] in ABORTABLE_EXC:
                    world.probe("abort_overtaken_by_another_abortable_error")
                elif c["outcome"] != "ok":
                    viol("abort_failed_after_abortable_error", c)
            elif c["outcome"] != "raised":
                viol("call_accepted_in_abortable_state", c)
            continue
        if rel == "after" and latent_now and fc == "fatal":
            if c["op"] == "ctx_exc":
                if c["outcome"] != "ok" and c["exc"] not in FATAL_EXC:
                    viol("context_exit_raised_in_fatal_state", c)
            elif c["outcome"] != "raised":
                viol("call_accepted_after_fatal_error", c, note="error reply delivered before the call")
            continue
        if rel == "during":
            # in progress (or started within the grace window) when the error reply arrived:
            # it may complete, raise that error, or already be refused by the new state
            world.probe("call_in_progress_at_fault")
            if c["outcome"] == "raised" and exp == "ok" and c["exc"] not in ABORTABLE_EXC + FATAL_EXC + (
                    "IllegalOperation", "AssertionError"):
                viol("call_raised_unrelated_error", c)
            continue
        # ---- plain protocol order (no error known to the producer yet)
        if exp == "raise":
            if c["outcome"] != "raised":
                viol("out_of_order_call_accepted", c)
            else:
                no_effect(c)
        else:
            if c["outcome"] != "ok" and later_during and c["exc"] in ABORTABLE_EXC:
                world.probe("call_overtaken_by_another_abortable_error")
            elif c["outcome"] != "ok" and fc == "retriable" and c["op"].startswith("send") \
                    and c["exc"] in ("UnknownTopicOrPartitionError", "KafkaTimeoutError"):
                # documented: send() gives up after request_timeout_ms when it cannot get the
                # topic's metadata / room in the accumulator (here: its Metadata request queued
                # behind the request whose reply the fault swallowed)
                world.probe("send_gave_up_waiting_under_retriable_fault")
            elif c["outcome"] != "ok":
                viol("in_order_call_raised", c)
    if fc == "fatal" and fault_seq is not None:
        world.probe("fatal_fault_delivered")
        known = [c for c in calls if c["exc"] in FATAL_EXC]
        if known:
            first = known[0]["seq1"]
            late = [api for (s, cid, api) in mon.writes if cid == spec["id"] and s > first
                    and api in TXN_APIS + ("Produce",)]
            if late:
                world.violation("C16", "request_written_after_fatal_error",
                                dict(base, requests=late[:6], trace=trace))
        for r in obs["records"].values():
            if r.fut is not None and r.accept_seq is not None and not r.fut.done():
                world.violation("C16", "pending_send_not_failed_after_fatal_error",
                                dict(base, value=r.value.decode(), trace=trace))
                break
    if fc == "abortable" and fault_seq is not None:
        world.probe("abortable_fault_delivered")
        rec = [c for c in calls if c.get("recovering")]
        tail = rec[-3:]
        if len(tail) == 3 and all(c["outcome"] == "ok" for c in tail) and obs.get("model_final") == "READY":
            world.probe("recovered_after_abortable_error")
        elif rec and not any(c["outcome"] == "hang" for c in calls):
            world.violation("C16", "new_transaction_failed_after_abort_of_abortable_error",
                            dict(base, trace=trace))
