"""C10 - decoding untrusted bytes is memory-safe, terminating and fails cleanly.

Fault enumeration at the one seam of the record package that meets faults: bytes that
came off a socket or a disk.  Storage / transport corruption (torn reads = every
truncation point, flipped stored bytes = single-byte mutations, hostile length / count /
varint fields, inconsistent inner payloads, mixed formats, random bytes) is enumerated
over a corpus of valid buffers and injected (1) directly at the reader seam
(MemoryRecords -> next_batch -> validate_crc -> iterate) for the compiled codec - rebuilt
from the working tree with AddressSanitizer - and the pure-Python one, and (2) through the
running system: the simulated broker serves the corrupted segment to a real consumer on
the simulator.  Every case id is journalled before it runs, so an ASan abort, a signal or
a hang names the exact input."""
from __future__ import annotations

import json
import os
import struct
import subprocess
import sys
import tempfile
import time

from simkit import build, recfmt, scenario

PROP = "C10"
LEVEL = "fault_enumeration"
VERIF = os.path.dirname(os.path.dirname(os.path.abspath(__file__)))
PY = "/venv/bin/python"
BOUNDARY32 = [-2**31, -2, -1, 0, 1, 2**31 - 1, 0x7FFFFF00]
BOUNDARY64 = [-2**63, -1, 0, 2**63 - 1, 2**31]
VARINTS = [b"\x01", b"\x00", b"\x03", b"\xff\xff\xff\xff\x0f", b"\xfe\xff\xff\xff\x0f",
           b"\xff\xff\xff\xff\xff\xff\xff\xff\xff\x01", b"\x80\x80\x80\x80\x80\x80\x80\x80\x80\x80\x01",
           b"\xff\xff\x03", b"\x80\x01"]
QUICK_VALUES = 12
for _v in (2**32, 2**32 + 1, 2**32 + 5, 2**40 + 3, 2**31, 2**33 - 1, -(2**32), 2**62):
    VARINTS.append(recfmt.enc_varint(_v))


def _v2_first_record_fields(buf, pos, end):
    """{field: (position, encoded length)} of the varint fields of the first v2 record."""
    out = {}
    v, p = recfmt.dec_varint(buf, pos)
    out["length"] = (pos, p - pos)
    p += 1  # attributes
    _, q = recfmt.dec_varint(buf, p)  # timestamp delta
    _, q = recfmt.dec_varint(buf, q)  # offset delta
    klen, q2 = recfmt.dec_varint(buf, q)
    out["klen"] = (q, q2 - q)
    q = q2 + max(klen, 0)
    vlen, q2 = recfmt.dec_varint(buf, q)
    out["vlen"] = (q, q2 - q)
    q = q2 + max(vlen, 0)
    _, q2 = recfmt.dec_varint(buf, q)
    out["hcount"] = (q, q2 - q)
    if q2 > end:
        raise ValueError("record beyond batch")
    return out


# ------------------------------------------------------------------------------------
# corpus (independent writer)


def corpus(seed):
    """[(name, bytes)] valid buffers: v0 / v1 / v2, plain and every codec, 1..3 batches,
    control / transactional flags, null keys and values, headers."""
    r = scenario.rng_for(seed, "C10", "corpus")
    out = []

    def recs_v2(n, base_ts=1_600_000_000_000):
        rs = []
        for i in range(n):
            key = None if r.random() < 0.3 else f"k{i}".encode()
            val = None if r.random() < 0.1 else (f"v{i}-".encode() + b"x" * r.choice([0, 3, 20, 70]))
            hd = [("h", b"1"), ("g", None)][: r.choice([0, 0, 1, 2])]
            rs.append((i, base_ts + r.choice([0, 1, 5, 1000]) * i, key, val, hd))
        return rs

    def recs_legacy(n, base=0):
        return [(base + i, 1_600_000_000_000 + i, None if r.random() < 0.3 else f"k{i}".encode(),
                 None if r.random() < 0.1 else f"v{i}".encode() + b"y" * r.choice([0, 5, 30]))
                for i in range(n)]

    for codec in (0, 1, 2, 3, 4):
        for n in (1, 3):
            out.append((f"v2-c{codec}-n{n}", recfmt.encode_v2(10, recs_v2(n), codec=codec)))
        out.append((f"v2-c{codec}-txn", recfmt.encode_v2(5, recs_v2(2), codec=codec, transactional=True,
                                                       pid=77, epoch=3, base_seq=12)))
    out.append(("v2-control", recfmt.control_batch(9, 77, 3, True, 1, 1_600_000_000_000)))
    out.append(("v2-abort", recfmt.control_batch(9, 77, 3, False, 1, 1_600_000_000_000)))
    out.append(("v2-empty", recfmt.encode_v2(4, [], last_offset_delta=3, first_ts=5, max_ts=9)))
    out.append(("v2-logappend", recfmt.encode_v2(0, recs_v2(2), ts_type=1)))
    for magic in (0, 1):
        out.append((f"v{magic}-plain", recfmt.encode_legacy(magic, recs_legacy(3))))
        for codec in (1, 2, 3):
            if magic == 0 and codec == 3:
                continue
            out.append((f"v{magic}-c{codec}", recfmt.encode_legacy(magic, recs_legacy(3, 4), codec=codec)))
    # several batches per buffer, mixed formats
    a = recfmt.encode_v2(0, recs_v2(2))
    b = recfmt.encode_v2(2, recs_v2(3), codec=1)
    c = recfmt.control_batch(5, 9, 0, True)
    out.append(("v2x3", a + b + c))
    out.append(("v0+v1+v2", recfmt.encode_legacy(0, recs_legacy(2)) + recfmt.encode_legacy(1, recs_legacy(2, 2), codec=1)
                + recfmt.encode_v2(4, recs_v2(2))))
    out.append(("v2+partial", a + b[: len(b) // 2]))
    # snappy payloads in the xerial block framing the Java client writes
    inner_v2 = b"".join(recfmt._enc_record_v2(i, i, f"k{i}".encode(), f"value{i}".encode() * 3, ())
                        for i in range(3))
    out.append(("v2-xerial", _v2_with_payload(7, xerial(inner_v2, 40), codec=2, n=3, lod=2)))
    inner_v1 = b"".join(recfmt._enc_msg_legacy(1, i, 0, 1_600_000_000_000 + i, f"k{i}".encode(),
                                               f"val{i}".encode() * 2) for i in range(3))
    out.append(("v1-xerial", recfmt._enc_msg_legacy(1, 12, 2, 1_600_000_000_002, None, xerial(inner_v1, 30))))
    return out


def xerial(data, block):
    """xerial snappy framing: magic header, then [int32 length][raw snappy block]..."""
    import cramjam
    out = bytearray(struct.pack("!bccccccBii", -126, b"S", b"N", b"A", b"P", b"P", b"Y", 0, 1, 1))
    for i in range(0, len(data), block):
        blk = bytes(cramjam.snappy.compress_raw(data[i:i + block]))
        out += struct.pack("!i", len(blk)) + blk
    return bytes(out)


def _v2_with_payload(base_offset, payload, *, codec, n, lod):
    after_crc = struct.pack(">hiqqqhii", codec, lod, 0, 2, -1, -1, -1, n) + payload
    crc = recfmt.crc32c(after_crc)
    return struct.pack(">qiibI", base_offset, 4 + 1 + 4 + len(after_crc), 0, 2, crc) + after_crc


def fix_crc_legacy(buf, start):
    b = bytearray(buf)
    (length,) = struct.unpack_from(">i", b, start + 8)
    end = start + 12 + length
    if length < 5 or end > len(b):
        return bytes(b)
    import zlib
    struct.pack_into(">I", b, start + 12, zlib.crc32(bytes(b[start + 16:end])) & 0xFFFFFFFF)
    return bytes(b)


def own_builder_buffers():
    """Buffers produced by the implementation under test itself (worker side)."""
    from aiokafka.record.default_records import DefaultRecordBatchBuilder
    from aiokafka.record.legacy_records import LegacyRecordBatchBuilder
    out = []
    for ct in (0, 1):
        bld = DefaultRecordBatchBuilder(2, ct, 1, 123, 4, 5, 1 << 20)
        for i in range(3):
            bld.append(i, 1_600_000_000_000 + i, f"k{i}".encode(), f"val{i}".encode(), [("h", b"v")])
        out.append((f"own-v2-c{ct}", bytes(bld.build())))
    for magic in (0, 1):
        bld = LegacyRecordBatchBuilder(magic, 0, 1 << 20)
        for i in range(3):
            bld.append(i, 1_600_000_000_000 + i if magic else None, f"k{i}".encode(), f"val{i}".encode())
        out.append((f"own-v{magic}", bytes(bld.build())))
    return out


# ------------------------------------------------------------------------------------
# case enumeration


def crc_regions(buf):
    """[(start, end)] byte ranges covered by a checksum, per complete top-level batch."""
    out = []
    for (s, e, magic) in recfmt.batch_spans(buf):
        out.append((s + 21, e) if magic >= 2 else (s + 16, e))
    return out


def fix_crc_v2(buf, start):
    b = bytearray(buf)
    (length,) = struct.unpack_from(">i", b, start + 8)
    end = start + 12 + length
    if length < 9 or end > len(b):
        return bytes(b)
    struct.pack_into(">I", b, start + 17, recfmt.crc32c(bytes(b[start + 21:end])))
    return bytes(b)


def byte_values(orig, tier, r):
    if tier == "thorough":
        return [v for v in range(256) if v != orig]
    vals = {0, 1, 2, 0x7F, 0x80, 0x81, 0xFE, 0xFF, orig ^ 1, orig ^ 0x80, (orig + 1) & 0xFF, (orig - 1) & 0xFF}
    vals.discard(orig)
    return sorted(vals)[:QUICK_VALUES]


def cases(name, buf, tier, seed, part=None):
    """part 's': the structured families, 'b': the single-byte mutations, None: both."""
    for cid, data, expect in _cases(name, buf, tier, seed):
        if part is None or (part == "b") == (cid.split("/")[1] in ("byte", "bytefix")):
            yield cid, data, expect


def _cases(name, buf, tier, seed):
    """Yield (case_id, bytes, expect) - expect 'crc_false' when a checksum-covered byte of a
    structurally unchanged batch was altered."""
    n = len(buf)
    for t in range(n):
        yield f"{name}/trunc/{t}", buf[:t], None
    regions = crc_regions(buf)
    spans = recfmt.batch_spans(buf)
    r = scenario.rng_for(seed, "C10", name)
    # hostile fixed-width fields
    for (s, e, magic) in spans:
        if magic >= 2:
            f32 = [8, 12, 23, 53, 57]
            f64 = [0, 27, 35, 43]
            f16 = [21, 51]
        else:
            f32 = [8, (30 if magic == 1 else 22)]
            f64 = [0] + ([18] if magic == 1 else [])
            f16 = []
        for off in f32:
            for val in BOUNDARY32 + [n, n + 1, e - s, e - s - 12]:
                if s + off + 4 > n:
                    continue
                m = bytearray(buf)
                struct.pack_into(">i", m, s + off, max(-2**31, min(2**31 - 1, val)))
                yield f"{name}/f32/{s + off}/{val}", bytes(m), None
                if magic >= 2 and off > 17:
                    yield f"{name}/f32fix/{s + off}/{val}", fix_crc_v2(bytes(m), s), None
        for off in f64:
            for val in BOUNDARY64:
                if s + off + 8 > n:
                    continue
                m = bytearray(buf)
                struct.pack_into(">q", m, s + off, val)
                yield f"{name}/f64/{s + off}/{val}", bytes(m), None
        for off in f16:
            for val in (-2**15, -1, 0x7FFF, 0x0F, 0x07, 0x3F):
                m = bytearray(buf)
                struct.pack_into(">h", m, s + off, val)
                yield f"{name}/f16/{s + off}/{val}", fix_crc_v2(bytes(m), s), None
        # value / key length of the first legacy message
        if magic < 2:
            koff = s + (30 if magic == 1 else 22)
            for val in BOUNDARY32:
                m = bytearray(buf)
                if koff + 4 <= n:
                    struct.pack_into(">i", m, koff, val)
                    yield f"{name}/klen/{koff}/{val}", bytes(m), None
        # varints of an uncompressed v2 records section
        if magic >= 2 and (buf[s + 22] & 7) == 0:
            pos = s + 61
            k = 0
            while pos < e and k < 40:
                for vi, vb in enumerate(VARINTS):
                    m = bytearray(buf[:pos]) + vb + bytearray(buf[pos + 1:])
                    # keep the frame consistent: batch length grows with the varint
                    grow = len(vb) - 1
                    (length,) = struct.unpack_from(">i", m, s + 8)
                    struct.pack_into(">i", m, s + 8, length + grow)
                    yield f"{name}/varint/{pos}/{vi}", fix_crc_v2(bytes(m), s), None
                pos += 1
                k += 1
    # two hostile varint fields of one record at once (one untrusted field must never be
    # the bound of another): record length / key length / value length / header count
    for (s, e, magic) in spans:
        if not (magic >= 2 and (buf[s + 22] & 7) == 0):
            continue
        try:
            fields = _v2_first_record_fields(buf, s + 61, e)
        except Exception:  # noqa: BLE001
            continue
        huge = [2**31 - 1, 2**40 + 3, 2**61, 2**62]
        names = sorted(fields)
        for i, fa in enumerate(names):
            for fb in names[i + 1:]:
                for va in huge:
                    for vb in huge:
                        if tier == "quick" and (va, vb) not in ((2**62, 2**61), (2**61, 2**62),
                                                          (2**31 - 1, 2**31 - 1), (2**40 + 3, 2**40 + 3)):
                            continue
                        (pa, la), (pb, lb) = fields[fa], fields[fb]
                        if pa > pb:
                            (pa, la, va2), (pb, lb, vb2) = (pb, lb, vb), (pa, la, va)
                        else:
                            va2, vb2 = va, vb
                        ea, eb = recfmt.enc_varint(va2), recfmt.enc_varint(vb2)
                        m = bytearray(buf[:pa]) + ea + bytearray(buf[pa + la:pb]) + eb + \
                            bytearray(buf[pb + lb:])
                        grow = len(ea) - la + len(eb) - lb
                        (length,) = struct.unpack_from(">i", m, s + 8)
                        struct.pack_into(">i", m, s + 8, length + grow)
                        yield f"{name}/varint2/{fa}+{fb}/{va}/{vb}", fix_crc_v2(bytes(m), s), None
    # compressed payloads with inconsistent inner content (checksum valid)
    for (s, e, magic) in spans:
        if magic >= 2 and (buf[s + 22] & 7) in (1, 2, 3, 4) and s == 0 and e == n:
            codec = buf[s + 22] & 7
            try:
                inner = recfmt.decompress(codec, buf[s + 61:e])
            except Exception:  # noqa: BLE001
                continue
            variants = [inner[: len(inner) // 2], inner + b"\xff\xff\xff\xff\x0f", b"", b"\x80" * 11,
                        bytes([inner[0] ^ 0x7E]) + inner[1:] if inner else b"\x01"]
            for vi, inn in enumerate(variants):
                payload = recfmt.compress(codec, inn)
                m = bytearray(buf[: s + 61]) + payload
                struct.pack_into(">i", m, s + 8, len(m) - 12)
                yield f"{name}/inner/{vi}", fix_crc_v2(bytes(m), s), None
            # garbage instead of a compressed stream
            m = bytearray(buf[: s + 61]) + b"\x00\x01\x02garbage" * 3
            struct.pack_into(">i", m, s + 8, len(m) - 12)
            yield f"{name}/inner/garbage", fix_crc_v2(bytes(m), s), None
    # xerial block-length fields (inside the compressed payload, checksum repaired)
    if name.endswith("-xerial"):
        s0, e0, magic = spans[0]
        start = (s0 + 61 if magic >= 2 else s0 + 16 + 2 + 8 + 4 + 4) + 16
        pos = start
        k = 0
        while pos + 4 <= e0 and k < 6:
            (blen,) = struct.unpack_from(">i", buf, pos)
            for val in (-2**31, -100000, -16, -5, -4, -2, -1, 0, 1, 2**31 - 1, blen + 1, blen - 1):
                m = bytearray(buf)
                struct.pack_into(">i", m, pos, val)
                fixed = fix_crc_v2(bytes(m), s0) if magic >= 2 else fix_crc_legacy(bytes(m), s0)
                yield f"{name}/xerial/{pos}/{val}", fixed, None
            if blen <= 0:
                break
            pos += 4 + blen
            k += 1
    # inner message sets of legacy wrappers with inconsistent lengths (checksum repaired)
    for (s, e, magic) in spans:
        if magic < 2 and (buf[s + 17] & 7) in (1, 2, 3) and s == 0 and e == n:
            codec = buf[s + 17] & 7
            voff = s + (18 if magic == 0 else 26)
            (klen,) = struct.unpack_from(">i", buf, voff)
            voff += 4 + max(klen, 0)
            (vlen,) = struct.unpack_from(">i", buf, voff)
            try:
                inner = recfmt.decompress(codec, buf[voff + 4:voff + 4 + vlen])
            except Exception:  # noqa: BLE001
                continue
            variants = []
            for val in (-2**31, -100, -13, -12, -11, -1, 0, 1, 13, 2**31 - 1, len(inner)):
                mi = bytearray(inner)
                if len(mi) >= 12:
                    struct.pack_into(">i", mi, 8, val)
                    variants.append((f"len0={val}", bytes(mi)))
            # second inner message's length, and a truncated / empty inner set
            if len(inner) >= 12:
                (l0,) = struct.unpack_from(">i", inner, 8)
                p2 = 12 + l0
                for val in (-2**31, -12, -1, 0, 2**31 - 1):
                    mi = bytearray(inner)
                    if 0 < p2 and p2 + 12 <= len(mi):
                        struct.pack_into(">i", mi, p2 + 8, val)
                        variants.append((f"len1={val}", bytes(mi)))
            variants += [("half", inner[: len(inner) // 2]), ("empty", b""), ("one", inner[:1]),
                         ("eleven", inner[:11])]
            # every truncation point of the decompressed set (the end of a message must be
            # checked against the *decompressed* buffer), as it is and with the inner messages
            # claiming the other legacy magic than their wrapper (their layout differs by the
            # 8-byte timestamp: a bounds check sized by the wrapper's magic is 8 bytes short)
            step = 1 if tier != "quick" else 1
            for cut in range(12, min(len(inner), 160), step):
                variants.append((f"itrunc={cut}", inner[:cut]))
            other = bytearray(inner)
            pos = 0
            while pos + 17 <= len(other):
                (isz,) = struct.unpack_from(">i", other, pos + 8)
                other[pos + 16] = 1 - (other[pos + 16] & 1)
                if isz <= 0:
                    break
                pos += 12 + isz
            variants.append(("imagic", bytes(other)))
            for cut in range(12, min(len(other), 160)):
                variants.append((f"imagic-trunc={cut}", bytes(other[:cut])))
            for vn, inn in variants:
                payload = recfmt.compress(codec, inn)
                m = bytearray(buf[:voff]) + struct.pack(">i", len(payload)) + payload
                struct.pack_into(">i", m, s + 8, len(m) - 12)
                yield f"{name}/linner/{vn}", fix_crc_legacy(bytes(m), s), None
    # batches shorter than their format's header, random bytes
    rr = scenario.rng_for(seed, "C10", name, "rand")
    for k in range(40 if tier == "quick" else 400):
        ln = rr.choice([0, 1, 5, 11, 12, 16, 17, 20, 30, 60, 61, 62, 80, 200])
        body = bytes(rr.randrange(256) for _ in range(ln))
        yield f"{name}/random/{k}", body, None
        if ln >= 17:
            m = bytearray(body)
            struct.pack_into(">i", m, 8, ln - 12)
            m[16] = rr.choice([0, 1, 2, 2, 2, 3])
            yield f"{name}/randframe/{k}", bytes(m), None
    # single-byte mutations last: by far the largest family, so a run that is cut short by its
    # wall-clock budget has been through all the structured families of every buffer it reached
    for p in range(n):
        covered = any(s <= p < e for s, e in regions)
        for v in byte_values(buf[p], tier, r):
            m = bytearray(buf)
            m[p] = v
            yield f"{name}/byte/{p}/{v}", bytes(m), ("crc_false" if covered else None)
            if covered and (tier == "thorough" or (p + v) % 3 == 0):
                # the same flip with the checksum repaired: the parser behind the CRC check
                # meets hostile input
                for (s, e, magic) in spans:
                    if magic >= 2 and s + 21 <= p < e:
                        yield f"{name}/bytefix/{p}/{v}", fix_crc_v2(bytes(m), s), None


# ------------------------------------------------------------------------------------
# worker (runs in the implementation-specific interpreter; under ASan for the compiled one)


def decode_all(data, validate):
    """Returns (n_records, crc_results).  Raises whatever the decoder raises."""
    from aiokafka.record.memory_records import MemoryRecords
    mr = MemoryRecords(data)
    nrec = 0
    crcs = []
    nb = 0
    try:
        while mr.has_next():
            batch = mr.next_batch()
            if batch is None:
                break
            nb += 1
            if nb > 10_000:
                raise RuntimeError("decoder does not terminate: more than 10000 batches")
            if validate:
                crcs.append(bool(batch.validate_crc()))
            for rec in batch:
                nrec += 1
                _ = (rec.offset, rec.timestamp, rec.key, rec.value, rec.headers, rec.checksum)
                if nrec > 1_000_000:
                    raise RuntimeError("decoder does not terminate: more than 10^6 records")
    except (SystemError, MemoryError, RuntimeError):
        raise
    except Exception:
        # a caller may poll the same reader again after an error: that must stay inside the
        # buffer too (and may only raise ordinary errors)
        _repoll(mr, validate)
        _direct(data, validate)
        raise
    _repoll(mr, validate)
    _direct(data, validate)
    return nrec, crcs


def _direct(data, validate):
    """The batch classes are decoders in their own right (MemoryRecords hands them slices whose
    length field it has already compared with the buffer; a caller holding one batch need not):
    construct the class the magic byte selects over the whole buffer and walk it."""
    from aiokafka.record.default_records import DefaultRecordBatch
    from aiokafka.record.legacy_records import LegacyRecordBatch
    if len(data) < 17:
        return
    magic = data[16]
    try:
        batch = DefaultRecordBatch(data) if magic >= 2 else LegacyRecordBatch(data, magic)
        if validate:
            batch.validate_crc()
        n = 0
        for rec in batch:
            n += 1
            _ = (rec.offset, rec.timestamp, rec.key, rec.value, rec.headers, rec.checksum)
            if n > 1_000_000:
                raise RuntimeError("decoder does not terminate: more than 10^6 records")
    except (SystemError, MemoryError):
        raise
    except RuntimeError as exc:
        if "does not terminate" in str(exc):
            raise
        # (KafkaError derives from RuntimeError: CorruptRecordException etc. are clean failures)
    except Exception:  # noqa: BLE001  (an ordinary exception is a clean failure)
        pass


def _repoll(mr, validate):
    """next_batch() may be called whatever has_next() said (it returns None at the end of the
    buffer): poll a few more times, with and without asking first."""
    for k in range(4):
        try:
            if k % 2 == 0:
                mr.has_next()
            b2 = mr.next_batch()
            if b2 is not None and validate:
                b2.validate_crc()
        except (SystemError, MemoryError):
            raise
        except Exception:  # noqa: BLE001
            pass


def worker_main(argv):
    import faulthandler
    faulthandler.enable()
    cfg = json.loads(argv[0])
    seed, tier = cfg["seed"], cfg["tier"]
    journal = open(cfg["journal"], "w")
    items = corpus(seed) + own_builder_buffers()
    mine = [it for i, it in enumerate(items) if i % cfg["nworkers"] == cfg["wid"]]
    only = cfg.get("only")
    stats = {"cases": 0, "raised": {}, "decoded": 0, "crc_checked": 0, "violations": [], "by_kind": {}}
    t0 = time.perf_counter()
    deadline = t0 + cfg["budget"]
    per_case_journal = bool(only)
    chunk = 0
    done_all = True
    resume = cfg.get("resume_after")  # "<buffer name> <case id>": skip up to and including that chunk
    skipping = bool(resume)
    skip_left = 0
    # two passes: the structured families of every buffer first, the (much larger) single-byte
    # family afterwards, so that a wall-clock cut costs breadth of the cheap family only
    for name, buf, part in [(n_, b_, "s") for n_, b_ in mine] + [(n_, b_, "b") for n_, b_ in mine]:
        if skipping and resume.split(" ", 1)[0] != name and skip_left == 0:
            continue
        # the unmodified buffer must decode (sanity of the corpus)
        try:
            if not skipping:
                decode_all(buf, True)
        except Exception as exc:  # noqa: BLE001
            if not name.startswith("v2+partial"):
                stats["violations"].append({"clause": "valid_buffer_rejected", "case": name, "error": repr(exc)[:200]})
        for cid, data, expect in cases(name, buf, tier, seed, part):
            if only and cid not in only:
                continue
            if skipping:
                if skip_left == 0 and cid == resume.split(" ", 1)[1]:
                    skip_left = 256
                if skip_left > 0:
                    skip_left -= 1
                    if skip_left == 0:
                        skipping = False
                continue
            if per_case_journal:
                journal.write(cid + "\n")
                journal.flush()
            elif stats["cases"] % 256 == 0:
                journal.write(f"@{name} {cid}\n")
                journal.flush()
                # hang watchdog for the whole chunk (arming it per decode costs more than the decode)
                faulthandler.cancel_dump_traceback_later()
                faulthandler.dump_traceback_later(120, exit=True)
                if time.perf_counter() > deadline:
                    done_all = False
                    break
            stats["cases"] += 1
            kind = cid.split("/")[1]
            stats["by_kind"][kind] = stats["by_kind"].get(kind, 0) + 1
            for validate in (False, True):
                if per_case_journal:
                    faulthandler.dump_traceback_later(20, exit=True)
                try:
                    nrec, crcs = decode_all(data, validate)
                except (SystemError, MemoryError) as exc:
                    stats["violations"].append({"clause": "internal_error_raised", "case": cid,
                                                "validate": validate, "error": repr(exc)[:200],
                                                "hex": data[:120].hex()})
                except RuntimeError as exc:
                    if "does not terminate" in str(exc):
                        stats["violations"].append({"clause": "decoder_does_not_terminate", "case": cid,
                                                    "error": str(exc)})
                    else:
                        stats["raised"]["RuntimeError"] = stats["raised"].get("RuntimeError", 0) + 1
                except Exception as exc:  # noqa: BLE001
                    nm = type(exc).__name__
                    stats["raised"][nm] = stats["raised"].get(nm, 0) + 1
                else:
                    stats["decoded"] += 1
                    if validate and expect == "crc_false":
                        stats["crc_checked"] += 1
                        if crcs and all(crcs):
                            stats["violations"].append({"clause": "checksum_mismatch_not_reported", "case": cid,
                                                        "hex": data[:120].hex()})
                finally:
                    if per_case_journal:
                        faulthandler.cancel_dump_traceback_later()
        if not done_all:
            break
        chunk += 1
    faulthandler.cancel_dump_traceback_later()
    journal.write("#done\n")
    journal.flush()
    stats["wall"] = time.perf_counter() - t0
    stats["complete"] = done_all
    stats["violations"] = stats["violations"][:50]
    print(json.dumps(stats), flush=True)
    return 0


# ------------------------------------------------------------------------------------
# system-level injection: corrupted segment served through the simulated fetch path


def gen_plan(seed, index, tier="quick"):
    r = scenario.rng_for(seed, "C10", "sys", index)
    items = corpus(seed)
    v2 = [it for it in items if it[0].startswith("v2-c") or it[0].startswith("v2x3")]
    name, buf = r.choice(v2)
    all_cases = []
    for cid, data, expect in cases(name, buf, "quick", seed):
        kind = cid.split("/")[1]
        if kind in ("trunc", "byte", "bytefix", "f32", "f32fix", "varint", "varint2", "inner", "f16"):
            all_cases.append((cid, data))
    cid, data = r.choice(all_cases)
    return {"format": 1, "prop": "C10", "engine": "c10sys", "seed": scenario.subseed(seed, "C10", index),
            "index": index, "case": cid, "data": data.hex(), "check_crcs": r.random() < 0.5,
            "isolation": r.choice(["read_uncommitted", "read_committed"]),
            "cluster": {"brokers": 1, "topics": {"t0": {"partitions": 1}}, "lat": [0.0001, 0.001],
                        "chunk": r.choice(["whole", "random"])}}


def execute(plan):
    import asyncio

    from aiokafka import AIOKafkaConsumer
    from aiokafka.structs import TopicPartition
    from simkit import loop as L
    from simkit.cluster import Stored

    world, cl = scenario.make_world(plan)
    part = cl.partition("t0", 0)

    def good(base, n):
        recs = [(i, 1_600_000_000_000 + i, None, f"t0-0@{base + i}".encode(), ()) for i in range(n)]
        part.add_stored(recfmt.encode_v2(base, recs))

    good(0, 3)
    bad = bytes.fromhex(plan["data"])
    # the corrupted segment occupies offsets 3..12 whatever its bytes claim
    st = Stored(3, 12, bad, None, None, world.log.add(world.now(), "append_corrupt", plan["case"]))

    class _B:  # minimal batch facade for the model's bookkeeping
        control = False
        transactional = False
        pid = -1
        records = []
        magic = 2
        base_offset, last_offset = 3, 12
    st.batch = _B()
    part.log.append(st)
    part.next_offset = 13
    good(13, 3)
    out = {"errors": [], "got": []}

    async def main():
        L.OWNER.set("c0")
        c = AIOKafkaConsumer(bootstrap_servers=cl.bootstrap(), client_id="c0", check_crcs=plan["check_crcs"],
                             isolation_level=plan["isolation"], auto_offset_reset="earliest",
                             request_timeout_ms=1000, retry_backoff_ms=20, fetch_max_wait_ms=50)
        tp = TopicPartition("t0", 0)
        c.assign([tp])
        await c.start()
        t_end = world.now() + 1.5
        while world.now() < t_end:
            try:
                res = await c.getmany(timeout_ms=100)
                for recs in res.values():
                    out["got"] += [r.offset for r in recs]
            except Exception as exc:  # noqa: BLE001
                out["errors"].append(type(exc).__name__)
                if isinstance(exc, (SystemError, MemoryError)):
                    world.violation("C10", "internal_error_reached_the_application",
                                    {"case": plan["case"], "error": repr(exc)[:200]})
                if len(out["errors"]) > 50:
                    break
                await asyncio.sleep(0.01)
        # the fetcher must still be alive: skip the segment and read what follows
        c.seek(tp, 13)
        got_after = []
        t_end = world.now() + 2.0
        while world.now() < t_end and len(got_after) < 3:
            try:
                res = await c.getmany(timeout_ms=100)
                for recs in res.values():
                    got_after += [r.offset for r in recs]
            except Exception as exc:  # noqa: BLE001
                out["errors"].append("after:" + type(exc).__name__)
                await asyncio.sleep(0.01)
        out["after"] = got_after
        ft = c._fetcher._fetch_task
        out["fetch_task_dead"] = ft.done()
        await c.stop()

    res = scenario.run(plan, world, main)
    res["nontrivial"] = True
    if res["status"] == "ok":
        if out.get("fetch_task_dead"):
            world.violation("C10", "fetch_task_died_on_corrupt_segment", {"case": plan["case"], "errors": out["errors"][:5]})
        if out.get("after") != [13, 14, 15]:
            world.violation("C10", "consumer_unusable_after_corrupt_segment",
                            {"case": plan["case"], "after": out.get("after"), "errors": out["errors"][:6],
                             "got": out["got"][:10]})
        if out["got"][:3] != [0, 1, 2]:
            # getmany() raises before handing out the valid records that precede the corrupt
            # batch in the same response (the position does not move: nothing is lost, getone()
            # still returns them); outside the wording of C10, counted only
            world.probe("valid_records_before_corrupt_batch_withheld_by_getmany")
        for e in world.loop.exc_contexts:
            if e.get("exc_type") in ("SystemError", "MemoryError"):
                world.violation("C10", "internal_error_in_background_task", {"case": plan["case"], "ctx": e})
        world.probe("sys_errors_" + (out["errors"][0] if out["errors"] else "none"))
    scenario.finish(res, world, (plan["case"], plan["check_crcs"]))
    return res


# ------------------------------------------------------------------------------------
# check entry (called by the driver)


def _spawn(overlay, impl, cfg):
    env = build.worker_env(overlay, 0, impl, asan=(impl == "c"))
    return subprocess.Popen([PY, "-c", "import sys; sys.path.insert(0, %r); from props import c10; "
                             "sys.exit(c10.worker_main(sys.argv[1:]))" % VERIF, json.dumps(cfg)],
                            env=env, cwd=VERIF, stdout=subprocess.PIPE, stderr=subprocess.PIPE, text=True)


def run_check(tier, seed):
    from simkit import driver
    t0 = time.perf_counter()
    build.install_signal_cleanup()
    try:
        overlay = build.build(asan=True)
    except build.BuildError as exc:
        print(f"HARNESS-ERROR build failed: {exc}")
        return 2
    budget = float(os.environ.get("VERIF_BUDGET_S") or (45.0 if tier == "quick" else 800.0))
    tmp = tempfile.mkdtemp(prefix="c10-", dir=overlay)
    procs = []
    nw = {"c": 8, "py": 8}
    for impl in ("c", "py"):
        for wid in range(nw[impl]):
            cfg = {"seed": seed, "tier": tier, "wid": wid, "nworkers": nw[impl], "budget": budget,
                   "journal": os.path.join(tmp, f"j-{impl}-{wid}")}
            procs.append((impl, wid, cfg, _spawn(overlay, impl, cfg)))
    violations = []
    harness = []
    totals = {"cases": 0, "decoded": 0, "crc_checked": 0, "raised": {}, "by_kind": {}, "complete": True}
    per_impl = {"c": 0, "py": 0}
    for impl, wid, cfg, p in procs:
        try:
            so, se = p.communicate(timeout=budget + 600)
        except subprocess.TimeoutExpired:
            p.kill()
            so, se = p.communicate()
            harness.append({"worker": f"{impl}-{wid}", "timeout": True})
        line = next((ln for ln in so.splitlines()[::-1] if ln.startswith("{")), None)
        respawns = 0
        while (p.returncode != 0 or line is None) and respawns < 12:
            # the worker died: the journal names the chunk; pinpoint the case in a fresh
            # worker, then carry on behind that chunk
            last = _last_journal(cfg["journal"])
            crash = _pinpoint(overlay, impl, cfg, last, se)
            violations.append(crash)
            totals["complete"] = False
            respawns += 1
            if not last or not last.startswith("@"):
                break
            cfg = dict(cfg, resume_after=last[1:], journal=cfg["journal"] + f".r{respawns}")
            p = _spawn(overlay, impl, cfg)
            try:
                so, se = p.communicate(timeout=budget + 600)
            except subprocess.TimeoutExpired:
                p.kill()
                so, se = p.communicate()
            line = next((ln for ln in so.splitlines()[::-1] if ln.startswith("{")), None)
        if p.returncode != 0 or line is None:
            continue
        st = json.loads(line)
        per_impl[impl] += st["cases"]
        totals["cases"] += st["cases"]
        totals["decoded"] += st["decoded"]
        totals["crc_checked"] += st["crc_checked"]
        totals["complete"] = totals["complete"] and st["complete"]
        for k, v in st["raised"].items():
            totals["raised"][k] = totals["raised"].get(k, 0) + v
        for k, v in st["by_kind"].items():
            totals["by_kind"][k] = totals["by_kind"].get(k, 0) + v
        for v in st["violations"]:
            v["impl"] = impl
            violations.append(v)
    # ---- system-level sample on the simulator (compiled codec under ASan and pure Python)
    nsys = 300 if tier == "quick" else 6000
    sys_results = []
    workers = [driver.Worker(overlay, impl, hs, i, asan=(impl == "c"))
               for i, (impl, hs) in enumerate([("c", 0), ("c", 1), ("py", 2), ("c", 3), ("py", 0), ("c", 2)])]
    import props as _props
    _props.MODULES.setdefault("C10", "props.c10")
    for i, w in enumerate(workers):
        w.send({"cmd": "batch", "prop": "C10", "seed": seed, "tier": tier,
                "indices": list(range(i, nsys, len(workers))), "timeout": 120})
    import queue
    for w in workers:
        while True:
            try:
                msg = w.q.get(timeout=900)
            except queue.Empty:
                harness.append({"sys_worker": w.wid, "timeout": True})
                break
            if msg.get("eof"):
                violations.append({"clause": "interpreter_crashed_in_fetch_path", "impl": w.impl,
                                   "stderr": "".join(w.stderr_tail)[-1500:]})
                break
            if msg.get("batch_done"):
                break
            if "i" in msg:
                msg["impl"] = w.impl
                sys_results.append(msg)
        w.close()
    for rres in sys_results:
        if rres.get("status") not in ("ok", "spin"):
            harness.append({"i": rres["i"], "status": rres.get("status"), "detail": str(rres.get("detail"))[:400]})
        for v in rres.get("violations", []):
            if v[0] == "C10":
                violations.append({"clause": v[1], "impl": rres["impl"], "sys_index": rres["i"], **(v[2] if isinstance(v[2], dict) else {})})
    # ---- verdict ----------------------------------------------------------------------
    known = driver.load_known()
    replay_dir = os.path.join(VERIF, "replays")
    os.makedirs(replay_dir, exist_ok=True)
    exit_code = 0
    reported = []
    known_lines = {}
    by_clause = {}
    for v in violations:
        by_clause.setdefault(v["clause"], []).append(v)
    for clause, items in sorted(by_clause.items()):
        unknown = []
        for v in items:
            f = driver.known_match(known, PROP, clause, v)
            if f is not None:
                known_lines.setdefault(f["id"], [f, 0])[1] += 1
            else:
                unknown.append(v)
        if not unknown:
            continue
        exit_code = 1
        v = unknown[0]
        path = os.path.join(replay_dir, f"C10-{clause}-{abs(hash(json.dumps(v, sort_keys=True, default=str))) % 10**10:010d}.json")
        with open(path, "w") as f:
            json.dump({"format": 1, "property": PROP, "clause": clause, "engine": "c10", "seed": seed,
                       "tier": tier, "violation": v, "count": len(unknown)}, f, indent=1, default=str)
        reported.append({"clause": clause, "count": len(unknown), "replay": path})
        print(f"VIOLATION property={PROP} replay={path}")
        print(f"  clause={clause} cases_violating={len(unknown)} first={json.dumps(v, default=str)[:500]}")
    for fid, (f, n) in sorted(known_lines.items()):
        print(f"KNOWN-FINDING: property={PROP} {f['text']} (seen in {n} cases; id={fid})")
    wall = time.perf_counter() - t0
    samples = []
    for name, buf in corpus(seed)[:40:13]:
        for cid, data, expect in cases(name, buf, tier, seed):
            if cid.endswith("/7") or "/f32/" in cid:
                samples.append({"case": cid, "bytes_hex": data[:80].hex(), "expect": expect})
                break
    ev = {
        "property_id": PROP, "tier": tier, "seed": seed, "level": LEVEL, "wall_s": round(wall, 2),
        "violations": len(reported),
        "coverage": {
            "evaluations": totals["cases"] * 2 + len(sys_results),
            "distinct_nontrivial": totals["cases"],
            "rule": ("each case = one corrupted buffer (distinct by construction: corpus buffer x fault kind x "
                     "position x value) decoded twice (with and without checksum validation) by one "
                     "implementation; every case is non-trivial (the unmodified corpus buffers are only decoded "
                     "as a sanity check and not counted); plus system-level runs serving a corrupted segment "
                     "to a real consumer on the simulator"),
            "samples": samples[:4],
            "cases_by_fault_kind": totals["by_kind"],
            "cases_by_implementation": per_impl,
            "exhaustive": bool(totals["complete"]),
            "exhaustive_scope": ("every truncation point and the per-tier value set of every byte of every corpus "
                                 "buffer; thorough tier: all 255 values per byte"),
            "decoded_without_error": totals["decoded"], "exceptions_raised": totals["raised"],
            "checksum_clause_evaluations": totals["crc_checked"],
            "system_level_runs": len(sys_results),
            "runs_per_hour": round((totals["cases"] * 2) / wall * 3600) if wall else 0,
            "known_findings_seen": {fid: n_ for fid, (f, n_) in known_lines.items()},
            "harness_errors": len(harness),
            "components": {
                "real": ["aiokafka.record (compiled, rebuilt from the working tree with clang -fsanitize=address; and pure Python)",
                         "system level: AIOKafkaConsumer, Fetcher, AIOKafkaClient, AIOKafkaConnection"],
                "simulated": ["event loop, clock, transports (system level)"],
                "model": ["corpus writer (simkit/recfmt.py, independent of aiokafka)", "broker serving the corrupted segment"]},
        },
        "assumptions": ["AddressSanitizer reports every out-of-bounds access of the compiled codec on the executed path",
                        "corpus of ~45 valid buffers <= 400 bytes; single faults (one truncation / one byte / one field) plus seeded random inputs",
                        "time and scheduling play no role at the decoder seam; they do in the system-level runs"],
    }
    os.makedirs(os.path.join(VERIF, "evidence"), exist_ok=True)
    with open(os.path.join(VERIF, "evidence", "C10.json"), "w") as f:
        json.dump(ev, f, indent=1, default=str)
    if harness:
        print(f"HARNESS-ERROR {len(harness)} problem(s); first: {json.dumps(harness[0], default=str)[:800]}")
        if exit_code != 1:
            return 2
    print(f"C10 {tier}: {totals['cases']} corrupted buffers x2 decodes ({per_impl}), {len(sys_results)} system runs, "
          f"{len(violations)} violating, wall {wall:.1f}s, complete={totals['complete']}")
    return exit_code


def replay(doc, path):
    """Re-run the single corrupted buffer (or system-level plan) a C10 replay file names."""
    v = doc["violation"]
    seed, tier = doc.get("seed", 0), doc.get("tier", "quick")
    overlay = build.build(asan=True)
    impl = v.get("impl", "c")
    if "sys_index" in v:
        from simkit import driver
        w = driver.Worker(overlay, impl, 0, 0, asan=(impl == "c"))
        try:
            res = w.run_plan(gen_plan(seed, v["sys_index"], tier))
        finally:
            w.close()
        hit = [x for x in res.get("violations", []) if x[0] == PROP and x[1] == doc["clause"]]
        died = res.get("status") in ("worker_died", "worker_timeout")
    else:
        case = v.get("case") or (v.get("chunk") or "@ ?").split(" ", 1)[1]
        name = case.split("/", 1)[0]
        tmp = tempfile.mkdtemp(prefix="c10r-", dir=overlay)
        nw = 8
        names = [n for n, _ in corpus(seed)] + ["own-v2-c0", "own-v2-c1", "own-v0", "own-v1"]
        wid = names.index(name) % nw if name in names else 0
        cfg = {"seed": seed, "tier": tier, "wid": wid, "nworkers": nw, "budget": 300, "only": [case],
               "journal": os.path.join(tmp, "j")}
        p = _spawn(overlay, impl, cfg)
        try:
            so, se = p.communicate(timeout=400)
        except subprocess.TimeoutExpired:
            p.kill()
            so, se = p.communicate()
        line = next((ln for ln in so.splitlines()[::-1] if ln.startswith("{")), None)
        died = p.returncode != 0 or line is None
        hit = [] if died else [x for x in json.loads(line)["violations"] if x["clause"] == doc["clause"]]
        if died:
            print((se or "")[-1500:])
    if hit or (died and doc["clause"] in ("interpreter_crashed_or_asan_report", "interpreter_crashed_in_fetch_path")):
        print(f"VIOLATION property={PROP} replay={path}")
        print(f"  reproduced clause={doc['clause']}")
        return 1
    print(f"not reproduced: clause={doc['clause']}")
    return 0


def _last_journal(path):
    try:
        with open(path) as f:
            lines = [ln.strip() for ln in f if ln.strip()]
        return lines[-1] if lines else None
    except OSError:
        return None


def _pinpoint(overlay, impl, cfg, last, stderr):
    """Re-run the journalled chunk case by case in a fresh interpreter to name the input."""
    out = {"clause": "interpreter_crashed_or_asan_report", "impl": impl, "chunk": last,
           "stderr": (stderr or "")[-1200:]}
    if not last or not last.startswith("@"):
        return out
    name, first = last[1:].split(" ", 1)
    items = dict(corpus(cfg["seed"]))
    buf = items.get(name)
    ids = []
    if buf is not None:
        started = False
        for cid, data, expect in cases(name, buf, cfg["tier"], cfg["seed"]):
            if cid == first:
                started = True
            if started:
                ids.append(cid)
                if len(ids) >= 256:
                    break
    if not ids:
        return out
    cfg2 = dict(cfg, only=ids, journal=cfg["journal"] + ".pin", budget=300)
    p = _spawn(overlay, impl, cfg2)
    try:
        so, se = p.communicate(timeout=400)
    except subprocess.TimeoutExpired:
        p.kill()
        so, se = p.communicate()
    if p.returncode != 0:
        out["case"] = _last_journal(cfg2["journal"])
        out["stderr"] = (se or "")[-1500:]
        cid = out["case"]
        for c, data, expect in cases(name, buf, cfg["tier"], cfg["seed"]):
            if c == cid:
                out["hex"] = data.hex()
                break
    return out


if __name__ == "__main__":
    sys.exit(worker_main(sys.argv[1:]))
