"""Consumer engine: one real group-less AIOKafkaConsumer against generated
partition logs.  Serves C03 (delivery order / position / seek / pause), C08
(isolation filter) and the group-less part of C13 (start position / reset)."""
from __future__ import annotations

import asyncio

from props import loggen
from simkit import loop as L
from simkit import scenario

FETCH_ERRORS = [6, 3, 5, 9, 56, 7]  # retriable / transient fetch-level errors


# ------------------------------------------------------------------------------------
# plan generation


def gen_plan(prop, seed, index, tier="quick"):
    r = scenario.rng_for(seed, prop, index)
    nbrokers = r.choice([1, 2, 3])
    nparts = r.randint(1, 3)
    if prop == "C08":
        nparts = r.randint(1, 2)
    topics = {"t0": {"partitions": nparts}}
    cluster = {
        "brokers": nbrokers, "topics": topics,
        "lat": [0.0001, r.choice([0.0005, 0.003, 0.02])],
        "chunk": r.choice(["whole", "random", "random"]),
        "service_time": r.choice([0.0, 0.0005, 0.005]),
        "iter_cost": r.choice([0.0, 0.0, 0.00005]),
        "fetch_cut": r.choice(["bytes", "bytes", "batches"]),
    }
    iso = "read_uncommitted"
    if prop == "C08":
        iso = r.choice(["read_committed", "read_committed", "read_uncommitted"])
    elif prop == "C13":
        iso = r.choice(["read_committed", "read_uncommitted"])
    logs = []
    logd = {}
    init_end = {}
    appends = []
    ends = {}
    for p in range(nparts):
        lr = scenario.rng_for(seed, prop, index, "log", p)
        nrec = lr.randint(0, 60) if prop != "C08" else lr.randint(5, 60)
        descs, end = loggen.gen_log(lr, "t0", p, nrec=nrec, legacy=(prop != "C08" and lr.random() < 0.5),
                                    txn=(prop in ("C08",) or (prop == "C13" and lr.random() < 0.3)),
                                    compaction=lr.random() < 0.6)
        logs.append({"tp": f"t0/{p}", "descs": descs})
        logd[f"t0/{p}"] = descs
        ends[p] = end
        init_end[p] = end
        # growth during the run
        t = 0.05
        for _ in range(lr.choice([0, 0, 1, 2, 4])):
            t += lr.choice([0.02, 0.1, 0.4])
            more, end2 = loggen.gen_log(lr, "t0", p, nrec=lr.randint(1, 8), legacy=False,
                                        txn=False, compaction=False, start=ends[p])
            ends[p] = end2
            appends.append({"at": round(t, 3), "tp": f"t0/{p}", "descs": more})
    policy = "earliest"
    if prop == "C13":
        policy = r.choice(["earliest", "latest", "none"])
    elif r.random() < 0.15:
        policy = "latest"
    rt = r.choice([500, 1000, 2000])
    kwargs = {
        "fetch_max_wait_ms": r.choice([10, 50, 200, 500]),
        "fetch_min_bytes": 1,
        "fetch_max_bytes": r.choice([200, 1000, 5000, 52428800]),
        "max_partition_fetch_bytes": r.choice([300, 1000, 1048576]),
        "max_poll_records": r.choice([None, None, 1, 3]),
        "check_crcs": r.random() < 0.7,
        "isolation_level": iso,
        "auto_offset_reset": policy,
        "request_timeout_ms": rt,
        "retry_backoff_ms": r.choice([10, 50, 100]),
        "metadata_max_age_ms": r.choice([300, 1000, 300000]),
        "consumer_timeout_ms": r.choice([20, 200]),
    }
    # (a request queued behind a long-poll Fetch on the same connection waits for it: the
    # request timeout has to be well above the fetch wait, as the client's documentation asks)
    kwargs["fetch_max_wait_ms"] = min(kwargs["fetch_max_wait_ms"], rt // 2 - 50)
    api = {}
    if prop == "C13":
        lo_max = r.choice([0, 1, 2, 3, 3])
        api["2"] = [0, lo_max]
        if iso == "read_committed" and lo_max < 2:
            kwargs["isolation_level"] = iso = "read_uncommitted"
    if prop == "C08":
        # every Fetch version that can carry the consumer's isolation level (the layout of
        # the response - LSO, aborted-transaction index, log start offset - differs per version)
        api["1"] = [0, r.choice([4, 4, 5, 6, 7, 10, 11, 11]) if iso == "read_committed"
                    else r.choice([1, 2, 3, 4, 5, 7, 11, 11])]
    if api:
        cluster["api_versions"] = api
    log_start = {}
    if prop == "C13" and r.random() < 0.4:
        for p in range(nparts):
            if logd[f"t0/{p}"] and r.random() < 0.6:
                log_start[f"t0/{p}"] = r.choice(logd[f"t0/{p}"])["base"]
    tps = [["t0", p] for p in range(nparts)]
    mode = r.choice(["assign", "assign", "subscribe"])
    tasks = []
    for tk in range(r.randint(1, 3)):
        ops = []
        for _ in range(r.randint(3, 20)):
            x = r.random()
            tp = r.choice(tps)
            if x < 0.3:
                ops.append({"op": "getone", "tps": r.choice([None, None, [tp]]),
                            "timeout": r.choice([0.05, 0.3, 1.0])})
            elif x < 0.6:
                ops.append({"op": "getmany", "tps": r.choice([None, None, [tp]]),
                            "timeout_ms": r.choice([0, 10, 100, 500]),
                            "max_records": r.choice([None, None, 1, 2, 5])})
            elif x < 0.65:
                ops.append({"op": "anext", "timeout": r.choice([0.05, 0.3])})
            elif x < 0.75:
                hi = init_end[tp[1]]
                lo = 0
                if r.random() < (0.3 if prop == "C13" else 0.12):
                    off = r.choice([hi + r.randint(1, 50), max(0, lo - 1), 0])
                else:
                    off = r.randint(lo, hi) if hi > lo else lo
                ops.append({"op": "seek", "tp": tp, "offset": off})
                if r.random() < 0.25:
                    # a second seek while the fetch for the first target (possibly out of
                    # range, i.e. answered with an error) is still in flight
                    if r.random() < 0.6:
                        ops.append({"op": "sleep", "s": r.choice([0.0002, 0.001, 0.005])})
                    ops.append({"op": "seek", "tp": tp, "offset": r.randint(lo, hi) if hi > lo else lo})
            elif x < 0.79:
                if r.random() < 0.5:
                    ops.append({"op": "pause", "tp": tp})
                else:
                    # seek_to_beginning()/seek_to_end(): possibly while another reset (the
                    # initial lookup, an earlier seek_to_*) is still being answered
                    ops.append({"op": r.choice(["seek_to_beginning", "seek_to_end"]), "tp": tp})
                    if r.random() < 0.3:
                        ops.append({"op": r.choice(["seek_to_beginning", "seek_to_end"]), "tp": tp})
            elif x < 0.8:
                ops.append({"op": "pause", "tp": tp})
            elif x < 0.86:
                ops.append({"op": "resume", "tp": tp})
            elif x < 0.94:
                ops.append({"op": "position", "tp": tp})
            else:
                ops.append({"op": "sleep", "s": r.choice([0.001, 0.02, 0.2])})
        tasks.append({"name": str(tk), "ops": ops})
    if prop == "C13":
        # an explicit seek racing with the initial lookup / reset
        if r.random() < 0.5:
            tp = r.choice(tps)
            tasks.append({"name": "early", "ops": [
                {"op": "sleep", "s": r.choice([0.0, 0.0005, 0.002, 0.01, 0.05])},
                {"op": "seek", "tp": tp, "offset": r.randint(0, max(ends[tp[1]], 1))}]})
            if r.random() < 0.4:
                # ... and nobody polls before that seek: whatever the lookup has parked for the
                # application meanwhile (an error, with policy none) is superseded by the seek
                for tk in tasks[:-1]:
                    tk["ops"].insert(0, {"op": "sleep", "s": r.choice([0.06, 0.2])})
    faults = []
    if r.random() < 0.65:
        faults = gen_faults(r, prop, nbrokers, nparts)
        if mode == "subscribe":
            # a topic-level metadata error makes a group-less subscriber drop and
            # re-create its assignment, i.e. start again from a reset result
            faults = [f for f in faults if not (f["on"]["request"] == "Metadata"
                                                and isinstance(f["do"], dict)
                                                and "reply_error" in f["do"])]
    if prop == "C03" and r.random() < 0.15:
        # a fetch response corrupted on the way, once (CRC checking on)
        faults.append({"on": {"request": "Fetch", "nth": r.randint(1, 8)}, "do": "corrupt_once"})
        kwargs["check_crcs"] = True
    return {"format": 1, "prop": prop, "engine": "consumer", "seed": scenario.subseed(seed, prop, index),
            "index": index, "cluster": cluster, "logs": logs, "appends": appends,
            "log_start": log_start,
            "consumer": {"kwargs": kwargs, "mode": mode, "tps": tps}, "tasks": tasks,
            "faults": faults}


def gen_faults(r, prop, nbrokers, nparts):
    kinds = ["drop_before_apply", "drop_after_apply", "lose_response", "reply_error", "leader_move",
             "stale_metadata", "delay", "leader_unavailable"]
    if nbrokers >= 2:
        kinds.append("broker_failover")
    enabled = r.sample(kinds, r.randint(1, len(kinds)))
    apis = ["Fetch", "Fetch", "Fetch", "Metadata", "ListOffsets"]
    out = []
    for _ in range(r.randint(1, 6)):
        k = r.choice(enabled)
        api = r.choice(apis)
        trig = {"request": api, "nth": r.randint(1, 10 if api == "Fetch" else 4)}
        if k in ("drop_before_apply", "drop_after_apply"):
            out.append({"on": trig, "do": {k: r.choice(["eof", "reset"])}})
        elif k == "lose_response":
            out.append({"on": trig, "do": "lose_response"})
        elif k == "reply_error":
            code = r.choice(FETCH_ERRORS) if api != "Metadata" else r.choice([5, 3])
            out.append({"on": trig, "do": {"reply_error": code}})
        elif k == "delay":
            out.append({"on": trig, "do": {"delay": r.choice([0.01, 0.1, 0.6])}})
        elif k == "leader_move":
            out.append({"on": trig, "do": {"leader_move": ["t0", r.randrange(nparts),
                                                          r.randint(1, nbrokers)]}})
        elif k == "leader_unavailable":
            out.append({"on": trig, "do": {"leader_unavailable": ["t0", r.randrange(nparts),
                                                                r.choice([0.05, 0.3, 1.0])]}})
        elif k == "stale_metadata":
            out.append({"on": trig, "do": {"stale_metadata": [r.randint(1, nbrokers),
                                                             r.choice([0.1, 0.5, 1.5])]}})
        elif k == "broker_failover":
            out.append({"on": trig, "do": {"broker_failover": [
                r.choice(["serving", "serving_after", r.randint(1, nbrokers)]),
                r.choice([0.3, 3.0, 1e6])]}})
    return out


# ------------------------------------------------------------------------------------
# reference reader (sequential model)


class Ref:
    def __init__(self, world, cl, plan, client_id):
        self.world = world
        self.cl = cl
        self.prop = plan["prop"]
        kw = plan["consumer"]["kwargs"]
        self.iso = 1 if kw["isolation_level"] == "read_committed" else 0
        self.policy = kw["auto_offset_reset"]
        self.client_id = client_id
        self.E = {}  # tp -> int | None (awaiting a reset result)
        self.reset_kind = {}  # tp -> "earliest" | "latest" | "none"
        self.reset_since = {}  # tp -> event seq after which replies count
        self.seek_gen = {}  # tp -> number of seek()/seek_to_*() calls so far
        self.seek_t = {}  # tp -> virtual time of the last seek()
        self.delivered_since_seek = {}  # tp -> records handed out since then
        self.paused = set()
        self.oor_possible = {}  # tp -> True if the last seek target was out of range when issued
        self.replies = []  # (seq, tp, ts_kind, offset) ListOffsets replies served to us
        self.delivered = {}  # tp -> list of offsets
        self.seek_marks = {}  # tp -> (offset, seq) of last seek
        self.errors_seen = []
        # a reply the client has received, or is about to receive, when seek_to_*() is called
        # answers the call if it is of the same kind (the fetcher cannot tell them apart, and
        # the answer is at most one network trip old): how old is "about to receive"
        delays = [f["do"]["delay"] for f in plan.get("faults", [])
                  if isinstance(f.get("do"), dict) and "delay" in f["do"]]
        # (the model records a reply when it computes it; it leaves service_time later)
        self.slack = 4 * plan["cluster"]["lat"][1] + 0.002 + (max(delays) if delays else 0.0) \
            + 2 * plan["cluster"].get("service_time", 0.0)
        self.reset_call_t = {}  # tp -> virtual time of the seek_to_*() call being answered
        world.subscribe("list_offsets_reply", self._on_lo)

    def _on_lo(self, broker, conn, req, tp, ts, off):
        if req.client_id == self.client_id:
            self.replies.append((self.world.log.seq, tp, ts, off, self.world.now()))

    def assign(self, tps):
        for tp in tps:
            self.E[tp] = None
            self.reset_kind[tp] = self.policy
            self.reset_since[tp] = self.world.log.seq
            self.delivered.setdefault(tp, [])

    def part(self, tp):
        return self.cl.partition(*tp)

    def visible(self, tp):
        return self.part(tp).visible_records(self.iso)

    def first_visible_at_or_after(self, tp, off):
        for r, b in self.visible(tp):
            if r.offset >= off:
                return r
        return None

    def bound(self, tp):
        p = self.part(tp)
        return p.lso if self.iso == 1 else p.hw

    def allowed_starts(self, tp):
        want = {"earliest": -2, "latest": -1}.get(self.reset_kind[tp])
        since = self.reset_since[tp]
        tcall = self.reset_call_t.get(tp)
        return {off for (seq, t, ts, off, when) in self.replies
                if t == tp and ts == want and off >= 0
                and (seq >= since or (tcall is not None and tcall - when <= self.slack))}

    def out_of_range(self, tp, off):
        p = self.part(tp)
        return off < p.log_start or off > p.hw

    # -- events -------------------------------------------------------------------------
    def on_seek(self, tp, off):
        self.seek_gen[tp] = self.seek_gen.get(tp, 0) + 1
        self.seek_t[tp] = self.world.now()
        self.delivered_since_seek[tp] = 0
        self.E[tp] = off
        self.seek_marks[tp] = (off, self.world.log.seq)
        self.oor_possible[tp] = self.out_of_range(tp, off)
        if self.oor_possible[tp]:
            # the broker may answer OFFSET_OUT_OF_RANGE: the reset policy applies
            self.reset_kind[tp] = self.policy
            self.reset_since[tp] = self.world.log.seq
            self.reset_call_t.pop(tp, None)
            self.world.probe("seek_out_of_range")

    def on_seek_to(self, tp, kind):
        self.seek_gen[tp] = self.seek_gen.get(tp, 0) + 1
        if self.E.get(tp, 0) is None and not self.oor_possible.get(tp) \
                and self.reset_kind.get(tp) == kind:
            # still waiting for a reset result of this very kind: the reply to the lookup
            # that is already in flight answers this call as well
            return
        self.oor_possible[tp] = False
        self.E[tp] = None
        self.reset_kind[tp] = kind
        self.reset_since[tp] = self.world.log.seq
        self.reset_call_t[tp] = self.world.now()

    def v(self, clause, data):
        self.world.violation(self.prop, clause, data)

    def on_record(self, tp, rec, filt, task):
        w = self.world
        if filt is not None and tp not in filt:
            self.v("record_outside_partitions_argument", {"tp": list(tp), "filter": [list(x) for x in filt]})
        if tp in self.paused:
            self.v("record_from_paused_partition", {"tp": list(tp), "offset": rec.offset})
        if tp not in self.E:
            self.v("record_from_unassigned_partition", {"tp": list(tp)})
            return
        E = self.E[tp]
        part = self.part(tp)
        want = None
        if E is not None and not self.oor_possible.get(tp):
            want = self.first_visible_at_or_after(tp, E)
            ok = want is not None and want.offset == rec.offset
        else:
            # awaiting a reset result (initial, seek_to_*, or position out of range):
            # the record must be the first visible one after an offset a ListOffsets
            # reply gave us (or, if the log grew past an out-of-range seek, after E)
            ok = False
            cands = set(self.allowed_starts(tp)) if E is None else set()
            if E is not None:
                cands |= self.allowed_starts(tp) | {E}
            for s in cands:
                fv = self.first_visible_at_or_after(tp, s)
                if fv is not None and fv.offset == rec.offset:
                    ok = True
                    want = fv
                    break
            if self.reset_kind.get(tp) == "none" and E is None:
                ok = False
        if not ok:
            self.v("wrong_record_delivered", {
                "tp": list(tp), "got_offset": rec.offset, "expected_from": E,
                "expected_offset": want.offset if want is not None else None,
                "allowed_starts": sorted(self.allowed_starts(tp))[:8], "task": task,
                "log_start": part.log_start, "hw": part.hw, "lso": part.lso,
                "reset_kind": self.reset_kind.get(tp)})
            self.E[tp] = rec.offset + 1
            self.delivered[tp].append(rec.offset)
            self.delivered_since_seek[tp] = self.delivered_since_seek.get(tp, 0) + 1
            return
        if rec.offset >= self.bound(tp):
            self.v("record_beyond_visible_bound", {"tp": list(tp), "offset": rec.offset,
                                                  "bound": self.bound(tp), "iso": self.iso})
        # content
        hdrs = [(k, v) for k, v in rec.headers]
        exp_ts = want.timestamp
        if want.timestamp == -1 and rec.timestamp is None:
            exp_ts = None
        if (rec.value != want.value or rec.key != want.key or hdrs != [(k, v) for k, v in want.headers]
                or rec.timestamp != exp_ts):
            self.v("record_content_differs", {
                "tp": list(tp), "offset": rec.offset, "got": [repr(rec.key), repr(rec.value)[:60],
                                                               rec.timestamp],
                "want": [repr(want.key), repr(want.value)[:60], want.timestamp]})
        self.E[tp] = rec.offset + 1
        self.oor_possible[tp] = False
        self.delivered[tp].append(rec.offset)
        self.delivered_since_seek[tp] = self.delivered_since_seek.get(tp, 0) + 1

    def on_position(self, tp, pos, just_sought=None):
        if tp not in self.E:
            return
        E = self.E[tp]
        if just_sought is not None and pos != just_sought:
            self.v("position_after_seek_differs", {"tp": list(tp), "position": pos, "seek": just_sought})
            return
        if E is None or self.oor_possible.get(tp):
            allowed = self.allowed_starts(tp)
            if E is not None:
                allowed = allowed | {E}
            # position may already have moved over invisible offsets after the reset
            ok = False
            for s in allowed:
                nxt = self.first_visible_at_or_after(tp, s)
                hi = nxt.offset if nxt is not None else max(self.bound(tp), s)
                if s <= pos <= hi:
                    ok = True
                    self.E[tp] = s if E is None else E
                    break
            if not ok:
                self.v("position_not_a_reset_result", {"tp": list(tp), "position": pos,
                                                       "allowed": sorted(allowed)[:8],
                                                       "reset_kind": self.reset_kind.get(tp)})
                self.E[tp] = pos
            return
        nxt = self.first_visible_at_or_after(tp, E)
        hi = nxt.offset if nxt is not None else max(self.bound(tp), E)
        if not E <= pos <= hi:
            self.v("position_out_of_bounds", {"tp": list(tp), "position": pos, "min": E, "max": hi})

    def remaining(self, tp):
        """Visible records not yet delivered from the current expected position."""
        E = self.E.get(tp)
        if E is not None and self.oor_possible.get(tp):
            starts = self.allowed_starts(tp)
            if E > self.part(tp).hw or E < self.part(tp).log_start:
                if not starts:
                    return None
                E = min(starts)
        if E is None:
            starts = self.allowed_starts(tp)
            if not starts:
                return None
            E = min(starts)
        return [r.offset for r, b in self.visible(tp) if r.offset >= E]


# ------------------------------------------------------------------------------------
# execution


def consumer_bound(kw):
    return 3 * (kw["request_timeout_ms"] / 1000 + kw["fetch_max_wait_ms"] / 1000
                + 2 * kw["retry_backoff_ms"] / 1000 + 0.2) + 1.0


def execute(plan):
    from aiokafka import AIOKafkaConsumer
    from aiokafka import errors as Errors
    from aiokafka.structs import TopicPartition

    world, cl = scenario.make_world(plan)
    prop = plan["prop"]
    for ent in plan["logs"]:
        t, p = ent["tp"].rsplit("/", 1)
        loggen.materialise(cl, t, int(p), ent["descs"])
    for key, off in plan.get("log_start", {}).items():
        t, p = key.rsplit("/", 1)
        part = cl.partition(t, int(p))
        off = min(off, part.next_offset)  # (minimised plans may have lost log batches)
        part.log = [st for st in part.log if st.base_offset >= off]
        part.log_start = off
        part.aborted = [(pid, f, m) for (pid, f, m) in part.aborted if m >= off]
    mbytes = loggen.max_batch_bytes(cl)
    for ap in plan["appends"]:
        t, p = ap["tp"].rsplit("/", 1)
        world.at(ap["at"], loggen.materialise, cl, t, int(p), ap["descs"])
        for d in ap["descs"]:
            mbytes = max(mbytes, len(loggen.encode_desc(t, int(p), d)))
    last_append = max([ap["at"] for ap in plan["appends"]] or [0.0])
    kw = dict(plan["consumer"]["kwargs"])
    # generators never create a batch that cannot be fetched (RecordTooLarge skips by design)
    kw["max_partition_fetch_bytes"] = max(kw["max_partition_fetch_bytes"], mbytes + 1)
    plan_kw = plan["consumer"]["kwargs"]
    ref = Ref(world, cl, plan, "c0")
    tps = [tuple(x) for x in plan["consumer"]["tps"]]
    state = {"consumer": None, "stop": False}
    notes = []
    policy = plan_kw["auto_offset_reset"]

    def tpo(tp):
        return TopicPartition(tp[0], tp[1])

    def expected_error(exc, where):
        """Errors the API may legitimately raise in this workload."""
        def just_sought(tp):
            # the harness sees an exception a few loop iterations after the library raised it;
            # a seek by another task may have slipped in between
            t = ref.seek_t.get(tp)
            return t is not None and world.now() - t <= 5e-4

        if isinstance(exc, Errors.NoOffsetForPartitionError) and policy == "none":
            world.probe("no_offset_for_partition_raised")
            a = exc.args[0] if exc.args else None
            tp = (a.topic, a.partition) if hasattr(a, "topic") else None
            if tp is not None and tp in ref.E and ref.E[tp] is not None and not ref.oor_possible.get(tp) \
                    and not just_sought(tp):
                # the application has chosen a valid position since: the error of the lookup
                # that the seek superseded must not come back
                world.violation(prop, "stale_error_raised_after_seek",
                                {"op": where, "error": repr(exc)[:120], "tp": list(tp), "position": ref.E[tp]})
            return True
        if isinstance(exc, Errors.OffsetOutOfRangeError) and policy == "none":
            world.probe("offset_out_of_range_raised")
            named = exc.args[0] if exc.args and isinstance(exc.args[0], dict) else {}
            for a, off in named.items():
                tp = (a.topic, a.partition)
                if tp in ref.E and ref.E[tp] is not None and not ref.oor_possible.get(tp) \
                        and not just_sought(tp) and ref.seek_marks.get(tp) is not None \
                        and ref.seek_marks[tp][0] != off and not ref.delivered_since_seek.get(tp):
                    # the error names another offset than the (valid) one the application has
                    # sought to and nothing was consumed since: a superseded position's error
                    world.violation(prop, "stale_error_raised_after_seek",
                                    {"op": where, "error": repr(exc)[:120], "tp": list(tp),
                                     "sought": ref.seek_marks[tp][0], "named": off})
            return True
        if isinstance(exc, Errors.CorruptRecordException) and world.fault_counts.get("corrupt_once"):
            # a response was corrupted on the way (injected): the error is reported, nothing
            # may be skipped or repeated because of it (the reference reader does not move)
            world.probe("corrupt_record_raised")
            return True
        return False

    async def deliver(records, filt, task):
        for rec in records:
            ref.on_record((rec.topic, rec.partition), rec, filt, task)

    async def run_task(consumer, tk):
        for op in tk["ops"]:
            if state["stop"]:
                return
            kind = op["op"]
            try:
                if kind == "getone":
                    filt = [tuple(x) for x in op["tps"]] if op["tps"] else None
                    args = [tpo(x) for x in filt] if filt else []
                    try:
                        rec = await asyncio.wait_for(consumer.getone(*args), op["timeout"])
                    except asyncio.TimeoutError:
                        continue
                    await deliver([rec], filt, tk["name"])
                elif kind == "anext":
                    try:
                        rec = await asyncio.wait_for(consumer.__anext__(), op["timeout"])
                    except asyncio.TimeoutError:
                        continue
                    await deliver([rec], None, tk["name"])
                elif kind == "getmany":
                    filt = [tuple(x) for x in op["tps"]] if op["tps"] else None
                    args = [tpo(x) for x in filt] if filt else []
                    res = await consumer.getmany(*args, timeout_ms=op["timeout_ms"],
                                                 max_records=op["max_records"])
                    total = 0
                    for tp_, recs in res.items():
                        total += len(recs)
                        await deliver(recs, filt, tk["name"])
                    lim = op["max_records"] or plan_kw["max_poll_records"]
                    if lim is not None and total > lim:
                        world.violation(prop, "getmany_exceeds_max_records", {"got": total, "max": lim})
                elif kind == "seek":
                    tp = tuple(op["tp"])
                    if tp not in ref.E:
                        continue
                    consumer.seek(tpo(tp), op["offset"])
                    ref.on_seek(tp, op["offset"])
                    if not ref.oor_possible.get(tp):
                        pos = await asyncio.wait_for(consumer.position(tpo(tp)), 5)
                        # no await happened inside position() when the position is valid
                        ref.on_position(tp, pos, just_sought=op["offset"])
                elif kind in ("seek_to_beginning", "seek_to_end"):
                    tp = tuple(op["tp"])
                    if tp not in ref.E:
                        continue
                    ref.on_seek_to(tp, "earliest" if kind == "seek_to_beginning" else "latest")
                    fn = consumer.seek_to_beginning if kind == "seek_to_beginning" else consumer.seek_to_end
                    mark = ref.seek_gen[tp]
                    try:
                        await asyncio.wait_for(fn(tpo(tp)), 10)
                    except asyncio.TimeoutError:
                        continue
                    if ref.seek_gen.get(tp) == mark and ref.E.get(tp, 0) is None:
                        # nobody sought since: the call returned, so the position is the answer
                        # to a ListOffsets request of *this* kind
                        try:
                            pos = await asyncio.wait_for(consumer.position(tpo(tp)), 1.0)
                        except asyncio.TimeoutError:
                            continue
                        if ref.seek_gen.get(tp) == mark and ref.E.get(tp, 0) is None:
                            ref.on_position(tp, pos)
                elif kind == "pause":
                    tp = tuple(op["tp"])
                    if tp in ref.E:
                        consumer.pause(tpo(tp))
                        ref.paused.add(tp)
                elif kind == "resume":
                    tp = tuple(op["tp"])
                    if tp in ref.E:
                        consumer.resume(tpo(tp))
                        ref.paused.discard(tp)
                elif kind == "position":
                    tp = tuple(op["tp"])
                    if tp not in ref.E:
                        continue
                    try:
                        pos = await asyncio.wait_for(consumer.position(tpo(tp)), 1.0)
                    except asyncio.TimeoutError:
                        continue
                    ref.on_position(tp, pos)
                elif kind == "sleep":
                    await asyncio.sleep(op["s"])
            except Errors.IllegalStateError:
                notes.append((kind, "not_assigned"))
                continue
            except Errors.KafkaError as exc:
                if expected_error(exc, kind):
                    notes.append((kind, type(exc).__name__))
                    if policy == "none":
                        _recover_none(consumer, exc)
                    continue
                world.violation(prop, "unexpected_error_from_api",
                                {"op": kind, "error": repr(exc), "task": tk["name"]})

    def _recover_none(consumer, exc):
        # with policy "none" the application has to pick a position itself
        for tp in tps:
            if tp in ref.E and (ref.E[tp] is None or ref.oor_possible.get(tp)):
                part = cl.partition(*tp)
                try:
                    consumer.seek(tpo(tp), part.log_start)
                except Exception:  # noqa: BLE001
                    continue
                ref.on_seek(tp, part.log_start)

    async def main():
        L.OWNER.set("c0")
        consumer = AIOKafkaConsumer(bootstrap_servers=cl.bootstrap(), client_id="c0", **kw)
        state["consumer"] = consumer
        mode = plan["consumer"]["mode"]
        if mode == "assign":
            consumer.assign([tpo(tp) for tp in tps])
            ref.assign(tps)
        else:
            consumer.subscribe(["t0"])
            ref.assign(tps)
        try:
            await asyncio.wait_for(consumer.start(), 30)
        except Exception as exc:  # noqa: BLE001
            notes.append(("start_raised", repr(exc)))
            world.probe("start_raised")
            try:
                await asyncio.wait_for(consumer.stop(), 30)
            except Exception:  # noqa: BLE001
                pass
            return
        tasks = [asyncio.ensure_future(run_task(consumer, tk)) for tk in plan["tasks"]]
        await asyncio.gather(*tasks)
        # ---- drain phase: after faults and appends stop, delivery reaches the end
        bound = consumer_bound(plan_kw)
        t_ops = world.now()
        for tp in list(ref.paused):
            try:
                consumer.resume(tpo(tp))
            except Errors.IllegalStateError:
                pass
            ref.paused.discard(tp)
        quiet_from = None
        while True:
            now = world.now()
            quiet = max(world.last_fault_effect, world.t0 + last_append, t_ops)
            for tp in tps:
                # pin down which reset result was adopted before judging progress
                if tp in ref.E and (ref.E[tp] is None or ref.oor_possible.get(tp)):
                    try:
                        pos = await asyncio.wait_for(consumer.position(tpo(tp)), 0.05)
                    except (asyncio.TimeoutError, Errors.KafkaError):
                        continue
                    ref.on_position(tp, pos)
                    # Pin the model to the position the client has adopted - but not while that
                    # is still the sought offset itself: whether it is in range *now* says
                    # nothing, a fetch for it may have been answered OFFSET_OUT_OF_RANGE before
                    # the log grew (the next delivery tells which way the client went).
                    sought = ref.seek_marks.get(tp, (None,))[0]
                    if ref.E[tp] is not None and ref.oor_possible.get(tp) and \
                            not ref.out_of_range(tp, pos) and pos != sought:
                        ref.E[tp] = pos
                        ref.oor_possible[tp] = False
            left = {tp: ref.remaining(tp) for tp in tps if tp in ref.E}
            if all(v is not None and not v for v in left.values()):
                break
            if now >= quiet + bound:
                for tp, v in left.items():
                    if v is None or v:
                        world.violation(prop, "delivery_stalled", {
                            "tp": list(tp), "expected_from": ref.E.get(tp),
                            "undelivered": (v or [])[:5], "n_undelivered": len(v or []),
                            "awaiting_reset": ref.E.get(tp) is None,
                            "faults": dict(world.fault_counts), "now": now, "quiet_from": quiet})
                break
            try:
                res = await consumer.getmany(timeout_ms=100)
            except Errors.KafkaError as exc:
                if expected_error(exc, "drain"):
                    _recover_none(consumer, exc)
                    continue
                world.violation(prop, "unexpected_error_from_api", {"op": "drain", "error": repr(exc)})
                break
            for tp_, recs in res.items():
                await deliver(recs, None, "drain")
        # final positions
        for tp in tps:
            if tp in ref.E and ref.E[tp] is not None and not ref.oor_possible.get(tp):
                try:
                    pos = await asyncio.wait_for(consumer.position(tpo(tp)), 1.0)
                except (asyncio.TimeoutError, Errors.KafkaError):
                    continue
                ref.on_position(tp, pos)
        try:
            await asyncio.wait_for(consumer.stop(), 60)
        except asyncio.TimeoutError:
            world.probe("stop_hang")
        except asyncio.CancelledError:
            # stop() leaked a CancelledError of one of its own tasks (C19's business)
            world.probe("stop_raised_cancelled")
        await asyncio.sleep(0.05)

    res = scenario.run(plan, world, main)
    res["nontrivial"] = bool(world.fault_counts) or len(plan["tasks"]) >= 2
    res["ndelivered"] = sum(len(v) for v in ref.delivered.values())
    scenario.finish(res, world, None)
    return res
