"""C12 - responses reach exactly their requests; connection failure fails all waiters."""
from props import conn_engine as E
from simkit import scenario

PROP = "C12"
LEVEL = "exploration"
RUNS = {"quick": 12000, "thorough": 600000}
SHRINK_LISTS = ("reqs", "cuts")
SHRINK_MIN = {"reqs": 1}
_ENUM = {}


def _enum(seed, tier):
    key = (seed, tier)
    if key not in _ENUM:
        _ENUM[key] = E.single_fault_plans(seed, tier)
    return _ENUM[key]


def gen_plan(seed, index, tier="quick"):
    """The first indices enumerate the finite single-fault space (every cut of a
    short response stream, EOF / reset at every byte); the rest is seeded search."""
    en = _enum(seed, tier)
    if index < len(en):
        return en[index]
    return E.gen_plan(PROP, seed, index, tier)


def execute(plan):
    return E.execute(plan)
