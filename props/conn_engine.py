"""Connection engine (C12): a real AIOKafkaConnection (directly, or through
AIOKafkaClient.send) attached to a scripted peer that controls every byte of
the response stream."""
from __future__ import annotations

import asyncio
import struct

from simkit import loop as L
from simkit import scenario, wire

KINDS = ["metadata", "findcoord", "heartbeat", "delrec", "produce0"]
API_TABLE = {3: (0, 5), 10: (0, 1), 12: (0, 1), 21: (0, 2), 18: (0, 0), 0: (0, 7)}


# ------------------------------------------------------------------------------------


def gen_plan(prop, seed, index, tier="quick"):
    r = scenario.rng_for(seed, prop, index)
    n = r.randint(1, 8)
    mode = r.choice(["conn", "conn", "client"])
    timeout_ms = r.choice([100, 300, 1000])
    quirk = r.random() < 0.1
    reqs = []
    big = []
    for i in range(n):
        kind = r.choice(KINDS if mode == "conn" else KINDS[:4])
        delay = r.choice([0.0, 0.0, 0.001, 0.01, 0.05])
        if r.random() < 0.12:
            delay = timeout_ms / 1000 * r.choice([0.9, 1.0, 1.5, 3.0])  # around / past the timeout
        waiter = r.choice(["await", "await", "await", "cancel"])
        pad_to = 0
        if kind == "delrec" and r.random() < 0.4:
            # compact strings whose length sits on an unsigned-varint boundary
            pad_to = r.choice([126, 127, 128, 129, 255, 16382, 16383, 16384])
            big.append(pad_to > 1000)
        reqs.append({"kind": kind, "pad_to": pad_to, "gap": r.choice([0, 0, 0, 0.0005, 0.01]), "delay": delay,
                     "waiter": waiter, "cancel_after": r.choice([0.0, 0.001, 0.02, 0.2]),
                     "cuts": sorted({r.randint(1, 40) for _ in range(r.choice([0, 0, 1, 2, 3]))})})
    fault = None
    if r.random() < 0.6:
        at = r.randrange(n)
        k = r.choice(["wrong_corr", "dup", "unsolicited", "truncate_body", "size_negative",
                      "size_huge", "eof_at", "reset_at", "overlong_body"])
        fault = {"at": at, "kind": k, "arg": r.randint(0, 60)}
    plan = {"format": 1, "prop": prop, "engine": "conn", "seed": scenario.subseed(seed, prop, index),
            "index": index, "mode": mode, "timeout_ms": timeout_ms, "quirk": quirk,
            "corr_start": r.choice([0, 0, 5, 2**31 - 1 - r.randint(0, 6)]),
            # (byte-wise delivery of a 16 KiB frame would be 16 384 events at one instant)
            "bytewise": r.random() < 0.15 and not any(big),
            "cluster": {"lat": [0.0001, r.choice([0.0003, 0.003])], "chunk": "whole",
                        "coalesce_eof": r.random() < 0.3},
            "reqs": reqs, "fault": fault}
    # the idle reaper: its ticks fall between requests, between a waiter giving up and the
    # late reply, ... (it may close a connection nobody is waiting on, nothing else)
    plan["max_idle_ms"] = r.choice([None, None, 20, 60, 150, 400])
    if mode == "conn":
        # conn.send() has written the request when it returns; what the caller does with the
        # awaitable afterwards (awaits it later, out of order, or drops it) must not matter
        for q in reqs:
            x = r.random()
            if q["kind"] == "produce0":
                continue
            if x < 0.07:
                q["waiter"] = "cancel_unstarted"
            elif x < 0.2:
                q["waiter"] = "late"
                q["late_by"] = r.choice([0.0003, 0.005, 0.05, timeout_ms / 1000 * 1.2])
    return plan


def single_fault_plans(seed, tier):
    """Finite part of the space: one request, every cut position of its response
    (1- and 2-cut splits), and every byte position for EOF / reset."""
    plans = []
    base = {"format": 1, "prop": "C12", "engine": "conn", "mode": "conn", "timeout_ms": 300,
            "quirk": False, "corr_start": 0, "bytewise": False,
            "cluster": {"lat": [0.0002, 0.0002], "chunk": "whole", "const_latency": 0.0002}}
    idx = 0
    for kind in ("metadata", "delrec", "heartbeat", "findcoord"):
        size = {"metadata": 40, "delrec": 40, "heartbeat": 14, "findcoord": 40}[kind]
        for c1 in range(1, size):
            for c2 in ([None] if tier == "quick" else [None] + list(range(c1 + 1, size, 3))):
                cuts = [c1] if c2 is None else [c1, c2]
                p = dict(base, seed=scenario.subseed(seed, "C12e", idx), index=f"e{idx}",
                         reqs=[{"kind": kind, "gap": 0, "delay": 0.0, "waiter": "await",
                                "cancel_after": 0, "cuts": cuts},
                               {"kind": "heartbeat", "gap": 0, "delay": 0.0, "waiter": "await",
                                "cancel_after": 0, "cuts": []}], fault=None)
                plans.append(p)
                idx += 1
        for k in ("eof_at", "reset_at"):
            for pos in range(0, size):
                p = dict(base, seed=scenario.subseed(seed, "C12e", idx), index=f"e{idx}",
                         reqs=[{"kind": kind, "gap": 0, "delay": 0.0, "waiter": "await",
                                "cancel_after": 0, "cuts": []},
                               {"kind": "metadata", "gap": 0, "delay": 0.0, "waiter": "await",
                                "cancel_after": 0, "cuts": []}],
                         fault={"at": 0, "kind": k, "arg": pos})
                plans.append(p)
                idx += 1
                # same cut, second request's frame instead (EOF on / after a frame boundary
                # with an earlier reply already delivered), coalescing loop flavour
                p2 = dict(p, seed=scenario.subseed(seed, "C12e", idx), index=f"e{idx}",
                          cluster=dict(base["cluster"], coalesce_eof=True),
                          fault={"at": 1, "kind": k, "arg": pos})
                plans.append(p2)
                idx += 1
    return plans


# ------------------------------------------------------------------------------------


class Peer:
    """Scripted broker endpoint."""

    def __init__(self, world, plan):
        self.world = world
        self.plan = plan
        self.host, self.port = "peer", 9092
        self.nreq = 0
        self.frames = []  # what was sent: dicts (corr, token, kind, t_last_byte)
        self.tokens = {}  # corr -> [tokens sent under that corr id]
        self.terminated = None  # (time, why) once a connection-terminating fault was emitted
        self.next_send = 0.0
        self.conn_last = {}  # conn id -> time of the last response scheduled on it
        self.conn = None

    def accepting(self):
        return True

    def blackholed(self):
        return False

    def on_connect(self, conn):
        self.conn = conn

    def on_conn_closed(self, conn):
        pass

    def on_raw(self, conn, payload):
        conn.request_done()

    def on_request(self, conn, req):
        w = self.world
        conn.request_done()  # pipelining: take the next request at once
        if req.name == "ApiVersions":
            body = {"error_code": 0, "api_keys": [
                {"api_key": k, "min_version": lo, "max_version": hi}
                for k, (lo, hi) in sorted(self.api_table().items())]}
            conn.send(wire.encode_response(req, body), tag=("ApiVersions", req.correlation_id))
            return
        if req.name == "Metadata" and not req.body["topics"]:
            # a broker answers one connection's requests in order: a metadata refresh
            # the client adds on its own queues behind responses still being delayed
            data = wire.encode_response(req, self.metadata_body("boot"))
            tag = ("Metadata", req.correlation_id)
            t = self.conn_last.get(conn.id, 0.0)
            if t <= w.now():
                conn.send(data, tag=tag)
            else:
                w.loop.call_at(t, self._emit_plain, conn, data, tag, context=L.sim_context())
            return
        self.nreq += 1
        if req.name == "Produce":
            return  # acks=0: no response
        i = self.index_of(req)
        spec = self.plan["reqs"][i] if 0 <= i < len(self.plan["reqs"]) else {"delay": 0, "cuts": []}
        tok = f"tok{i}"
        if spec.get("pad_to") and req.name == "DeleteRecords":
            tok = tok + "_" * max(0, spec["pad_to"] - len(tok))
        body, tokval = self.body_for(req, tok, i)
        fault = self.plan.get("fault")
        fk = fault["kind"] if fault and fault["at"] == i else None
        corr = req.correlation_id
        if self.plan.get("quirk") and req.name == "FindCoordinator" and req.api_version == 0:
            corr = 0  # Kafka 0.8.2 quirk, accepted by design
            self.tokens.setdefault(req.correlation_id, []).append(tokval)
        if fk == "wrong_corr":
            corr = (req.correlation_id + 1 + fault["arg"]) % 2**31
            if corr == 0 and self.plan.get("quirk"):
                corr = 1  # id 0 is what a 0.8.2 broker puts on every FindCoordinator v0 reply
        if fk == "dup" and corr == 0 and self.plan.get("quirk"):
            # Against a broker with the 0.8.2 quirk a second frame carrying id 0 is, for
            # a following FindCoordinator v0 request, indistinguishable from its own
            # reply (conn.py accepts it by design).  The stray frame is still injected,
            # but under an id that no request can own.
            fk = "unsolicited"
        data = wire.encode_response(req, body, correlation_id=corr)
        self.tokens.setdefault(corr, []).append(tokval)
        pieces = []  # list of (bytes, terminating?) to emit in order
        if fk == "unsolicited":
            extra = struct.pack(">ii", 4, (req.correlation_id + 77) % 2**31)
            pieces.append((extra, "unsolicited"))
            pieces.append((data, None))
        elif fk == "dup":
            pieces.append((data, None))
            pieces.append((data, "dup"))
        elif fk == "truncate_body":
            keep = max(4, len(data) - 4 - 1 - fault["arg"] % max(1, len(data) - 8))
            payload = data[4:4 + keep]
            pieces.append((struct.pack(">i", len(payload)) + payload, "truncated"))
        elif fk == "overlong_body":
            payload = data[4:] + b"\x00" * (1 + fault["arg"] % 7)
            pieces.append((struct.pack(">i", len(payload)) + payload, "overlong"))
        elif fk == "size_negative":
            pieces.append((struct.pack(">i", -1 - fault["arg"]) + data[4:], "size_negative"))
        elif fk == "size_huge":
            pieces.append((struct.pack(">i", 2**31 - 1 - fault["arg"]) + data[4:], "size_huge"))
        elif fk in ("eof_at", "reset_at"):
            cut = min(fault["arg"], len(data) - 1)
            pieces.append((data[:cut], fk))
        elif fk == "wrong_corr":
            pieces.append((data, "wrong_corr"))
        else:
            pieces.append((data, None))
        t = max(w.now() + spec["delay"], self.next_send)
        self.next_send = t
        self.conn_last[conn.id] = t
        w.loop.call_at(t, self._emit, conn, req, pieces, spec.get("cuts", []), corr, tokval,
                       context=L.sim_context())

    def _emit_plain(self, conn, data, tag):
        if not conn.server_closed:
            conn.send(data, tag=tag)

    def _emit(self, conn, req, pieces, cuts, corr, tokval):
        w = self.world
        if conn.server_closed:
            return
        for data, term in pieces:
            if self.plan.get("bytewise"):
                chunks = [data[i:i + 1] for i in range(len(data))]
            else:
                cs = [c for c in cuts if 0 < c < len(data)]
                chunks = []
                prev = 0
                for c in cs:
                    chunks.append(data[prev:c])
                    prev = c
                chunks.append(data[prev:])
            for j, ch in enumerate(chunks):
                if not ch:
                    continue
                last = j == len(chunks) - 1
                conn._queue_s2c(("data", ch, ("frame", corr, tokval, term) if last else None), w.now())
            if term in ("eof_at", "reset_at"):
                conn.server_close("eof" if term == "eof_at" else "reset")
                return

    @staticmethod
    def index_of(req):
        b = req.body
        if req.name == "Metadata":
            return int(b["topics"][0][1:])
        if req.name == "FindCoordinator":
            return int(b["key"][1:])
        if req.name == "Heartbeat":
            return b["generation_id"]
        if req.name == "DeleteRecords":
            return int(b["topics"][0]["name"][1:].rstrip("_"))
        return -1

    def api_table(self):
        tab = dict(API_TABLE)
        if self.plan.get("quirk"):
            tab[10] = (0, 0)
        return tab

    def metadata_body(self, token):
        return {"brokers": [{"node_id": 1, "host": self.host, "port": self.port, "rack": None}],
                "cluster_id": token, "controller_id": 1, "topics": []}

    def body_for(self, req, token, i):
        n = req.name
        if n == "Metadata":
            return self.metadata_body(token), token
        if n == "FindCoordinator":
            return {"error_code": 0, "error_message": None, "node_id": 1, "host": token, "port": 1}, token
        if n == "Heartbeat":
            code = 1000 + i
            return {"error_code": code}, code
        if n == "DeleteRecords":
            return {"topics": [{"name": token, "partitions": [
                {"partition": 0, "low_watermark": 5, "error_code": 0, "tags": {}}], "tags": {}}],
                "tags": {}}, token
        raise RuntimeError(n)


def make_request(kind, i, pad_to=0):
    from aiokafka.protocol.admin import DeleteRecordsRequest
    from aiokafka.protocol.coordination import FindCoordinatorRequest
    from aiokafka.protocol.group import HeartbeatRequest
    from aiokafka.protocol.metadata import MetadataRequest
    from aiokafka.protocol.produce import ProduceRequest

    if kind == "metadata":
        return MetadataRequest([f"m{i}"])
    if kind == "findcoord":
        return FindCoordinatorRequest(f"g{i}", 0)
    if kind == "heartbeat":
        return HeartbeatRequest("g", i, "m")
    if kind == "delrec":
        name = f"t{i}"
        if pad_to:
            name = name + "_" * max(0, pad_to - len(name))
        return DeleteRecordsRequest([(name, [(0, i)])], 100)
    if kind == "produce0":
        return ProduceRequest(transactional_id=None, required_acks=0, timeout=100,
                              topics=[("t", [(0, b"")])])
    raise ValueError(kind)


def token_of(kind, resp):
    if kind == "metadata":
        return resp.cluster_id
    if kind == "findcoord":
        return resp.host
    if kind == "heartbeat":
        return resp.error_code
    if kind == "delrec":
        return resp.topics[0][0]
    return None


def execute(plan):
    from aiokafka import errors as Errors
    from aiokafka.client import AIOKafkaClient
    from aiokafka.conn import create_conn

    world, cl = scenario.make_world(plan)
    prop = plan["prop"]
    peer = Peer(world, plan)
    world.net.endpoints[(peer.host, peer.port)] = peer
    timeout = plan["timeout_ms"] / 1000.0
    waiters = []  # dicts
    term = {"t": None, "why": None, "seq": None}
    frames_delivered = []  # (seq, t, corr, tokval, term)

    def on_resp(conn, tag):
        if isinstance(tag, tuple) and tag and tag[0] == "frame":
            _, corr, tokval, why = tag
            frames_delivered.append((world.log.seq, world.now(), corr, tokval, why, conn.id))

    def on_end(conn, how):
        if how in ("eof", "reset") and term["t"] is None:
            term.update(t=world.now(), why=how, seq=world.log.seq, conn=conn.id)

    written = {}  # plan request index -> (conn id, time) of the write that carried it

    def on_write(conn, req):
        if req.name in ("ApiVersions", "Produce") or (req.name == "Metadata" and not req.body["topics"]):
            return
        written.setdefault(Peer.index_of(req), (conn.id, world.now()))

    world.subscribe("client_response", on_resp)
    world.subscribe("conn_end", on_end)
    world.subscribe("client_write", on_write)
    state = {"written": written}

    async def waiter_task(w, aw):
        if w["spec"]["waiter"] == "late":
            await asyncio.sleep(w["spec"]["late_by"])
        w["t_start"] = world.now()
        t = asyncio.ensure_future(aw)

        def done(t, w=w):
            # resolution is observed where it happens, not where the harness gets to look
            if t.cancelled():
                w["outcome"] = ("cancelled", None)
            else:
                exc = t.exception()
                if exc is None:
                    try:
                        tok = token_of(w["kind"], t.result())
                    except Exception as e2:  # noqa: BLE001  not a response of this kind
                        tok = f"<unreadable as {w['kind']}: {type(e2).__name__}>"
                    w["outcome"] = ("ok", tok)
                elif isinstance(exc, asyncio.TimeoutError):
                    w["outcome"] = ("timeout", None)
                elif isinstance(exc, Errors.KafkaError):
                    w["outcome"] = ("kafka_error", type(exc).__name__)
                else:
                    w["outcome"] = ("other_error", repr(exc))
            w["t_done"] = world.now()
            w["seq_done"] = world.log.add(world.now(), "waiter_done", w["i"], w["outcome"][0])

        t.add_done_callback(done)
        if w["spec"]["waiter"] == "cancel_unstarted":
            t.cancel()
            w["cancelled"] = True
            w["t_cancel"] = world.now()
        if w["spec"]["waiter"] == "cancel":
            await asyncio.sleep(w["spec"]["cancel_after"])
            if not t.done():
                t.cancel()
                w["cancelled"] = True
                w["t_cancel"] = world.now()
        try:
            await t
        except BaseException:  # noqa: BLE001
            pass

    async def main():
        L.OWNER.set("c12")
        client = None
        if plan["mode"] == "conn":
            conn = await create_conn(peer.host, peer.port, client_id="c12",
                                     request_timeout_ms=plan["timeout_ms"],
                                     max_idle_ms=plan.get("max_idle_ms"))
        else:
            client = AIOKafkaClient(bootstrap_servers=f"{peer.host}:{peer.port}", client_id="c12",
                                    request_timeout_ms=plan["timeout_ms"], metadata_max_age_ms=10**7,
                                    connections_max_idle_ms=plan.get("max_idle_ms") or 540000)
            await client.bootstrap()
            await client.ready(1)
            conn = client._conns[(1, 0)]
        state["conn"] = conn
        state["conn_id"] = max(c.id for c in world.net.conns if c is not None)
        if not hasattr(conn, "_correlation_id"):
            raise RuntimeError("seam missing: AIOKafkaConnection._correlation_id")
        if plan["corr_start"]:
            conn._correlation_id = plan["corr_start"]
        tasks = []
        for i, spec in enumerate(plan["reqs"]):
            if spec["gap"]:
                await asyncio.sleep(spec["gap"])
            req = make_request(spec["kind"], i, spec.get("pad_to", 0))
            w = {"i": i, "kind": spec["kind"], "spec": spec, "outcome": None, "t_send": world.now(),
                 "cancelled": False, "seq_send": world.log.seq}
            try:
                if plan["mode"] == "conn":
                    if spec["kind"] == "produce0":
                        await conn.send(req, expect_response=False)
                        w["outcome"] = ("noresp", None)
                        w["corr"] = conn._correlation_id
                        waiters.append(w)
                        continue
                    aw = conn.send(req)
                    w["corr"] = conn._correlation_id
                else:
                    c = client._conns.get((1, 0))
                    aw = client.send(1, req)
                    w["corr"] = None
            except (Errors.KafkaError, OSError) as exc:
                w["outcome"] = ("send_raised", type(exc).__name__)
                w["t_done"] = world.now()
                waiters.append(w)
                continue
            waiters.append(w)
            tasks.append(asyncio.ensure_future(waiter_task(w, aw)))
            if plan["mode"] == "client":
                await asyncio.sleep(0)  # let client.send reach conn.send (keeps FIFO = issue order)
                cc = client._conns.get((1, 0))
                w["corr"] = cc._correlation_id if cc is not None else None
        # everything must settle within the request timeout (+ delays)
        horizon = timeout * 4 + 1.0 + sum(s["delay"] for s in plan["reqs"])
        done, pending = await asyncio.wait(tasks, timeout=horizon) if tasks else (set(), set())
        state["pending"] = len(pending)
        # the last waiter can resolve in the same instant in which a stray frame is
        # fed to the reader; let the read task run before sampling connected()
        await asyncio.sleep(0.005)
        state["connected_end"] = conn.connected()
        state["t_connected_end"] = world.now()
        state["transport_closing"] = None
        for t in pending:
            t.cancel()
        if client is not None:
            await client.close()
        else:
            conn.close()
        await asyncio.sleep(0.01)

    res = scenario.run(plan, world, main)
    res["nontrivial"] = plan.get("fault") is not None or len(plan["reqs"]) >= 2
    if res["status"] == "ok":
        oracle(plan, world, peer, waiters, term, frames_delivered, state, timeout)
    scenario.finish(res, world, (plan["mode"], plan["reqs"], plan["fault"], plan["quirk"], plan["bytewise"], plan["corr_start"]))
    return res


def oracle(plan, world, peer, waiters, term, frames_delivered, state, timeout):
    prop = plan["prop"]
    mode = plan["mode"]

    def v(clause, data):
        world.violation(prop, clause, data)

    if state.get("pending"):
        v("waiter_left_pending", {"n": state["pending"]})
    fault = plan.get("fault")
    fk = fault["kind"] if fault else None
    # tokens a waiter may legitimately see: those the peer sent under its correlation id
    prev_ok_seq = -1
    any_timeout_close = False
    for w in waiters:
        out = w["outcome"]
        if out is None:
            v("waiter_left_pending", {"i": w["i"]})
            continue
        kind = out[0]
        if kind in ("noresp", "send_raised"):
            continue
        if kind == "ok":
            want = 1000 + w["i"] if w["kind"] == "heartbeat" else f"tok{w['i']}"
            pad_to = plan["reqs"][w["i"]].get("pad_to", 0) if w["kind"] == "delrec" else 0
            if pad_to:
                # the padded token must come back byte for byte (compact string of that length)
                want = want + "_" * max(0, pad_to - len(want))
            if out[1] != want:
                v("waiter_got_foreign_response", {"i": w["i"], "kind": w["kind"], "got": out[1],
                                                 "want": want})
            if fk == "overlong_body":
                world.probe("overlong_body_accepted")
        elif kind == "cancelled":
            if not w["cancelled"]:
                v("waiter_cancelled_by_library", {"i": w["i"]})
        elif kind == "timeout":
            if w["t_done"] < w["t_send"] + timeout - 1e-6:
                v("timeout_before_deadline", {"i": w["i"], "after": w["t_done"] - w["t_send"]})
            any_timeout_close = True
        elif kind == "kafka_error":
            name = out[1]
            if name == "RequestTimedOutError" and mode == "client":
                if w["t_done"] < w["t_send"] + timeout - 1e-6:
                    v("timeout_before_deadline", {"i": w["i"]})
                any_timeout_close = True
                continue
            legit = term["t"] is not None or (mode == "client" and any_timeout_close) or \
                fk is not None
            if not legit:
                v("connection_error_without_cause", {"i": w["i"], "error": name})
            if name not in ("KafkaConnectionError", "CorrelationIdError", "RequestTimedOutError",
                            "NodeNotReadyError"):
                v("unexpected_error_class", {"i": w["i"], "error": name})
        else:
            v("unexpected_error_class", {"i": w["i"], "error": out[1]})
    # When did the connection under test have to die?  (first terminating event
    # delivered on it.)  Through AIOKafkaClient a request issued around that instant
    # may already travel on the replacement connection: ownership of a request is
    # read off the write that carried it, not off the time send() was called.
    cid0 = state.get("conn_id")
    written = state.get("written", {})
    tt = term["t"] if term.get("conn") == cid0 else None
    why_t = term["why"] if tt is not None else None
    for (seq, t, corr, tok, why, cid) in frames_delivered:
        if cid != cid0:
            continue
        if tt is not None and t >= tt:
            break
        if why in ("unsolicited", "dup", "size_negative", "wrong_corr"):
            tt, why_t = t, why
            break
        if why == "truncated":
            tk = tok.rstrip("_") if isinstance(tok, str) else tok
            hw = next((x for x in waiters if (f"tok{x['i']}" == tk or 1000 + x["i"] == tk)), None)
            # a body is only decoded (and found malformed) for a waiter still waiting.  The
            # moment a waiter stops waiting is when its timeout fires / it is cancelled, which
            # the harness observes a few loop iterations (microseconds) later: a frame that
            # arrives after the deadline, or after the cancel call, meets a done future
            waiting = hw is None or hw.get("t_done") is None or hw["t_done"] >= t
            if waiting and hw is not None and hw.get("outcome") is not None:
                if hw["outcome"][0] == "timeout" and t >= hw["t_send"] + timeout - 1e-6:
                    waiting = False
                if hw["outcome"][0] == "cancelled" and hw.get("t_cancel") is not None \
                        and t >= hw["t_cancel"]:
                    waiting = False
            if waiting:
                tt, why_t = t, why
                break
            world.probe("malformed_reply_for_a_waiter_that_gave_up")
    term["why"] = why_t
    if tt is not None:
        # promptness: everyone outstanding at the terminating event is done at that instant
        for w in waiters:
            out = w["outcome"]
            if out is None or out[0] in ("noresp", "send_raised"):
                continue
            wr = written.get(w["i"])
            if wr is None or wr[0] != cid0 or wr[1] > tt:
                continue  # never written, or carried by another connection
            world.probe("outstanding_at_connection_loss")
            if w.get("t_start", 0) > tt:
                continue  # the harness itself looked at the awaitable only later
            if w.get("t_done") is not None and w["t_done"] > tt + 1e-4:
                if out[0] in ("kafka_error",):
                    v("waiter_failed_late_after_connection_loss",
                      {"i": w["i"], "lag": w["t_done"] - tt, "why": term["why"] or fk})
                elif out[0] == "timeout" and fk not in ("size_huge",):
                    v("waiter_not_failed_on_connection_loss",
                      {"i": w["i"], "outcome": out[0], "why": term["why"] or fk,
                       "lag": w["t_done"] - tt})
                elif out[0] == "ok":
                    v("response_after_connection_loss", {"i": w["i"], "why": term["why"] or fk})
        if state.get("connected_end") and tt <= state["t_connected_end"] - 1e-3 and \
                (term["why"] or fk) not in ("size_huge", "overlong"):
            v("connection_still_reported_connected", {"why": term["why"] or fk})
