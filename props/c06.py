"""C06 - group membership converges and is not disturbed by the member itself."""
from props import group_engine as E

PROP = "C06"
LEVEL = "exploration"
RUNS = {"quick": 1500, "thorough": 30000}
SHRINK_LISTS = ("faults", "env", "members", "logs", "appends")
SHRINK_MIN = {"members": 1}
RUN_TIMEOUT = 300
BUDGET = {"quick": 120.0, "thorough": 900.0}  # (the run cap ends a quick check earlier on an idle machine)


def gen_plan(seed, index, tier="quick"):
    return E.gen_plan(PROP, seed, index, tier)


def execute(plan):
    return E.execute(plan)
