"""Partition-log generator: builds log descriptions (JSON-able) covering the
shapes the consumer properties quantify over, and materialises them into the
cluster model through the independent record codec."""
from __future__ import annotations

from simkit import recfmt

V2_CODECS = [0, 0, 1, 2, 3, 4]
LEGACY_CODECS = [0, 0, 1, 2]


def value_for(topic, part, offset, pad=0):
    return f"{topic}-{part}@{offset}".encode() + b"." * pad


def gen_log(r, topic, part, *, nrec, legacy=True, txn=False, compaction=True, start=0,
            max_batch=6):
    """Returns a list of batch descriptions in offset order.

    batch desc: {"m": magic, "c": codec, "base": int, "lod": last offset delta,
                 "recs": [[offset, ts, has_key, pad, nhdr], ...],
                 "pid", "epoch", "seq", "txn": bool, "ctl": None|"commit"|"abort"}
    """
    out = []
    off = start
    produced = 0
    ts = 1_600_000_000_000
    # phases: legacy formats can only precede v2 in a real log
    phase = 0 if legacy and r.random() < 0.5 else 2
    open_txn = {}  # pid -> True
    pids = [7000 + i for i in range(r.randint(1, 4))] if txn else []
    seqs = {p: 0 for p in pids}
    while produced < nrec:
        if phase < 2 and r.random() < 0.25:
            phase = 2 if r.random() < 0.6 else max(phase, 1)
        magic = phase if phase < 2 else 2
        if magic < 2 and r.random() < 0.5:
            magic = r.choice([0, 1]) if phase == 0 else 1
            phase = max(phase, magic)
        if magic == 2 and txn and pids and r.random() < 0.25 and any(open_txn.values()):
            # end a transaction with a marker
            pid = r.choice([p for p in pids if open_txn.get(p)])
            kind = r.choice(["commit", "abort", "abort"])
            out.append({"m": 2, "c": 0, "base": off, "lod": 0, "recs": [[off, ts, 0, 0, 0]],
                        "pid": pid, "epoch": 0, "seq": -1, "txn": True, "ctl": kind})
            open_txn[pid] = False
            off += 1
            continue
        if magic == 2 and txn and r.random() < 0.06:
            # solitary abort marker (its data was compacted away / never indexed)
            pid = r.choice(pids) if pids else 7999
            if not open_txn.get(pid):
                out.append({"m": 2, "c": 0, "base": off, "lod": 0, "recs": [[off, ts, 0, 0, 0]],
                            "pid": pid, "epoch": 0, "seq": -1, "txn": True, "ctl": "abort"})
                off += 1
                continue
        n = r.randint(1, max_batch)
        codec = r.choice(V2_CODECS if magic == 2 else LEGACY_CODECS)
        recs = []
        for i in range(n):
            ts += r.choice([0, 1, 5, -3, 1000])
            recs.append([off + i, max(ts, 0), 1 if r.random() < 0.3 else 0,
                         r.choice([0, 0, 5, 60]), 1 if (magic == 2 and r.random() < 0.15) else 0])
        desc = {"m": magic, "c": codec, "base": off, "lod": n - 1, "recs": recs, "pid": -1,
                "epoch": -1, "seq": -1, "txn": False, "ctl": None}
        if magic == 2 and txn and pids and r.random() < 0.6:
            pid = r.choice(pids)
            desc.update({"pid": pid, "epoch": 0, "seq": seqs[pid], "txn": True})
            seqs[pid] += n
            open_txn[pid] = True
        off += n
        produced += n
        # compaction: drop records (never the shape of the batch header in v2)
        if compaction and r.random() < 0.2 and n > 1:
            keep = [rec for rec in recs if r.random() < 0.6]
            if magic == 2:
                desc["recs"] = keep  # may be empty: an empty v2 batch keeps base/lod
            elif keep:
                desc["recs"] = keep
                if codec:
                    # wrapper offset is the last inner offset
                    desc["lod"] = keep[-1][0] - desc["base"]
        elif compaction and r.random() < 0.05 and magic == 2 and not desc["txn"]:
            # a whole batch removed: leaves an offset gap
            continue
        out.append(desc)
    return out, off


def encode_desc(topic, part, d):
    magic = d["m"]
    if d["ctl"]:
        o, ts = d["recs"][0][0], d["recs"][0][1]
        return recfmt.control_batch(o, d["pid"], d["epoch"], d["ctl"] == "commit", 0, ts)
    if magic == 2:
        recs = []
        for (o, ts, hk, pad, nh) in d["recs"]:
            key = f"k{o % 5}".encode() if hk else None
            hdrs = [("h", f"hv{o}".encode())] * nh
            recs.append((o - d["base"], ts, key, value_for(topic, part, o, pad), hdrs))
        first_ts = recs[0][1] if recs else d.get("fts", 0)
        return recfmt.encode_v2(d["base"], recs, codec=d["c"], transactional=d["txn"],
                                pid=d["pid"], epoch=d["epoch"], base_seq=d["seq"],
                                last_offset_delta=d["lod"], first_ts=first_ts,
                                max_ts=max([x[1] for x in recs], default=first_ts))
    recs = []
    for (o, ts, hk, pad, nh) in d["recs"]:
        key = f"k{o % 5}".encode() if hk else None
        recs.append((o, ts, key, value_for(topic, part, o, pad)))
    if d["c"]:
        return recfmt.encode_legacy(magic, recs, codec=d["c"])
    return recfmt.encode_legacy(magic, recs)


def materialise(cl, topic, part, descs):
    p = cl.partition(topic, part)
    for d in descs:
        if d["m"] < 2 and not d["c"]:
            # plain legacy messages: one stored "batch" per message
            for rec in d["recs"]:
                dd = dict(d)
                dd["recs"] = [rec]
                p.add_stored(encode_desc(topic, part, dd))
        else:
            if d["m"] < 2 and not d["recs"]:
                continue
            p.add_stored(encode_desc(topic, part, d))
        # a gap left by a removed batch still advances the log end
    return p


def max_batch_bytes(cl):
    m = 0
    for p in cl.all_partitions():
        for st in p.log:
            m = max(m, len(st.raw))
    return m
