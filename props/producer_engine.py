"""Producer engine: real AIOKafkaProducer(s) against the cluster model.
Serves C01 (order / loss / duplication / sequences) and C02 (futures)."""
from __future__ import annotations

import asyncio

from simkit import loop as L
from simkit import recfmt, scenario
from simkit.cluster import INT32_MAX, seq_inc

RETRIABLE_CODES = [6, 5, 3, 7, 19, 20]  # NOT_LEADER, LEADER_NOT_AVAILABLE, UNKNOWN_TOPIC, TIMED_OUT, NER, NERAA
COMPRESSIONS = [None, None, "gzip", "snappy", "lz4", "zstd"]


# ------------------------------------------------------------------------------------
# plan generation


def gen_plan(prop, seed, index, tier="quick", with_faults=None):
    r = scenario.rng_for(seed, prop, index)
    nbrokers = r.choice([1, 2, 3, 3])
    topics = {}
    for ti in range(r.choice([1, 1, 2])):
        ts_type = 0
        if prop == "C02" and r.random() < 0.4:
            ts_type = 1
        topics[f"t{ti}"] = {"partitions": r.randint(1, 3), "ts_type": ts_type}
    cluster = {
        "brokers": nbrokers, "topics": topics,
        "lat": [0.0001, r.choice([0.0005, 0.003, 0.02])],
        "chunk": r.choice(["whole", "random", "random"]),
        "service_time": r.choice([0.0, 0.0005, 0.005]),
        "iter_cost": r.choice([0.0, 0.0, 0.00005]),
    }
    produce_max = 7
    if prop == "C02":
        produce_max = r.choice([0, 1, 2, 3, 4, 5, 6, 7, 7, 7])
        if produce_max < 2:
            for t in topics.values():
                t["ts_type"] = 0
        cluster["api_versions"] = {"0": [0, produce_max]}
    faulty = (r.random() < 0.7) if with_faults is None else with_faults
    producers = []
    nprod = r.choice([1, 1, 1, 2])
    for pi in range(nprod):
        rt = r.choice([500, 1000, 2000, 5000])
        idem = r.random() < 0.6
        if produce_max < 3:
            idem = False  # idempotence needs Produce v3 (transactional_id field / v2 records)
        if idem:
            acks = r.choice(["all", -1])
        elif prop == "C02":
            acks = r.choice([0, 1, 1, -1, "all"])
        else:
            acks = r.choice([1, -1, "all"])
        kwargs = {
            "max_batch_size": r.choice([100, 200, 400, 1000, 4000]),
            "linger_ms": r.choice([0, 0, 1, 5, 20, 50]),
            "compression_type": r.choice(COMPRESSIONS),
            "acks": acks,
            "enable_idempotence": idem,
            "request_timeout_ms": rt,
            "retry_backoff_ms": r.choice([10, 20, 50, 100]),
            "metadata_max_age_ms": r.choice([300, 1000, 300000]),
        }
        seq_start = {}
        if idem and prop == "C01":
            mode = r.random()
            for tname, t in topics.items():
                for p in range(t["partitions"]):
                    if mode < 0.6:
                        continue
                    if mode < 0.85:
                        seq_start[f"{tname}/{p}"] = r.randint(1, 2**31 - 1000)
                    else:
                        seq_start[f"{tname}/{p}"] = 2**31 - 1 - r.randint(0, 60)
        tasks = []
        serial = 0
        for tk in range(r.randint(1, 3)):
            ops = []
            for _ in range(r.randint(3, 14)):
                tname = r.choice(sorted(topics))
                nparts = topics[tname]["partitions"]
                mode = r.random()
                part = r.randrange(nparts) if mode < 0.7 else None
                n = r.randint(1, 4)
                kind = "send"
                if r.random() < (0.12 if prop == "C02" else 0.06):
                    kind = "send_batch"
                    part = r.randrange(nparts)
                ts_mode = r.choice(["default", "default", "explicit", "mixed"])
                recs = []
                for _ in range(n):
                    serial += 1
                    key = None
                    if part is None and mode < 0.85 or r.random() < 0.3:
                        key = f"k{r.randrange(6)}".encode().hex()
                    ts = None
                    if ts_mode == "explicit" or (ts_mode == "mixed" and r.random() < 0.5):
                        ts = 1_600_000_000_000 + r.randrange(-5_000_000, 5_000_000)
                    hdrs = []
                    if r.random() < 0.15:
                        hdrs = [["h", f"x{serial}".encode().hex()]]
                    recs.append({"v": f"p{pi}/{tk}/{serial}".encode().hex(), "k": key, "ts": ts,
                                 "h": hdrs, "pad": r.choice([0, 0, 10, 80])})
                ops.append({"op": kind, "topic": tname, "partition": part, "recs": recs,
                            "think": r.choice([0, 0, 0.001, 0.005, 0.03])})
                if r.random() < 0.06:
                    # legal but unusual: a batch without records (an empty builder handed to
                    # send_batch, or a send() refused while its batch was being opened) - the
                    # accumulator then holds an empty batch for a moment
                    ops.append({"op": "empty", "how": r.choice(["empty_builder", "bad_timestamp"]),
                                "topic": tname, "partition": r.randrange(nparts),
                                "think": r.choice([0, 0.001, 0.01])})
                if prop == "C02" and r.random() < 0.08:
                    ops.append({"op": "flush"})
            tasks.append({"name": f"{tk}", "ops": ops})
        stop_after = None
        if prop == "C02" and r.random() < 0.25:
            stop_after = r.choice([0.0, 0.005, 0.05, 0.3])
        producers.append({"id": f"p{pi}", "kwargs": kwargs, "seq_start": seq_start,
                          "tasks": tasks, "stop_after": stop_after})
    faults = []
    if faulty:
        faults = gen_faults(r, prop, nbrokers, topics, producers)
    return {
        "format": 1, "prop": prop, "engine": "producer", "seed": scenario.subseed(seed, prop, index),
        "index": index, "cluster": cluster, "producers": producers, "faults": faults,
        # a producer that is stuck re-requests metadata without pause: enough iterations for
        # such a run to reach the liveness bound and the bounded stop() (a verdict, not a
        # step-limit harness error)
        "max_iters": 3_000_000,
    }


def gen_faults(r, prop, nbrokers, topics, producers):
    kinds = ["drop_before_apply", "drop_after_apply", "lose_response", "reply_error",
             "leader_move", "leader_unavailable", "stale_metadata", "delay", "broker_down"]
    if prop == "C02":
        kinds.append("wall_clock_jump")
    if nbrokers >= 2:
        kinds.append("broker_failover")
    enabled = r.sample(kinds, r.randint(1, len(kinds)))
    faults = []
    tps = [(t, p) for t, d in sorted(topics.items()) for p in range(d["partitions"])]
    for _ in range(r.randint(1, 6)):
        k = r.choice(enabled)
        trig_api = r.choice(["Produce", "Produce", "Produce", "Metadata"])
        trig = {"request": trig_api, "nth": r.randint(1, 12 if trig_api == "Produce" else 6)}
        if k in ("drop_before_apply", "drop_after_apply"):
            faults.append({"on": trig, "do": {k: r.choice(["eof", "reset"])}})
        elif k == "lose_response":
            faults.append({"on": trig, "do": "lose_response"})
        elif k == "reply_error":
            if trig_api == "Metadata":
                code = r.choice([5, 3])
            else:
                code = r.choice(RETRIABLE_CODES)
            faults.append({"on": trig, "do": {"reply_error": code}})
        elif k == "delay":
            faults.append({"on": trig, "do": {"delay": r.choice([0.01, 0.1, 0.6])}})
        elif k == "leader_move":
            t, p = r.choice(tps)
            faults.append({"on": trig, "do": {"leader_move": [t, p, r.randint(1, nbrokers)]}})
        elif k == "leader_unavailable":
            t, p = r.choice(tps)
            faults.append({"on": trig, "do": {"leader_unavailable": [t, p, r.choice([0.05, 0.3, 1.5])]}})
        elif k == "stale_metadata":
            faults.append({"on": trig, "do": {"stale_metadata": [r.randint(1, nbrokers),
                                                                 r.choice([0.1, 0.5, 2.0])]}})
        elif k == "broker_down":
            # connections dropped and refused for a while (a connect that fails is retriable too)
            faults.append({"on": trig, "do": {"broker_down": [r.randint(1, nbrokers),
                                                              r.choice([0.02, 0.1, 0.5])]}})
        elif k == "wall_clock_jump":
            faults.append({"on": trig, "do": {"wall_clock_jump": r.choice([-3600.0, 5.0, 86400.0])}})
        elif k == "broker_failover":
            # the broker serving this request (or another one) dies, before or after applying
            # it; its partitions get new leaders for good
            faults.append({"on": trig, "do": {"broker_failover": [
                r.choice(["serving", "serving_after", "serving_after", r.randint(1, nbrokers)]),
                r.choice([0.3, 3.0, 1e6])]}})
    return faults


# ------------------------------------------------------------------------------------
# execution


class Sent:
    __slots__ = ("value", "key", "headers", "ts", "producer", "task", "order", "topic",
                 "partition", "accept_seq", "accept_t", "fut", "done_seq", "done_t", "result",
                 "error", "ndone", "kind", "rejected", "batch_id")


def producer_time_bound(kwargs, nrecords):
    rt = kwargs["request_timeout_ms"] / 1000.0
    bo = kwargs["retry_backoff_ms"] / 1000.0
    return 3 * (2 * rt + 4 * bo + 0.2) + nrecords * 0.05


def execute(plan, hooks=None):
    from aiokafka import AIOKafkaProducer
    from aiokafka.structs import TopicPartition

    world, cl = scenario.make_world(plan)
    prop = plan["prop"]
    obs = {"sent": [], "flushes": [], "stops": [], "notes": []}
    inflight = InflightMonitor(world, cl) if prop in ("C01",) else None
    seqmon = SequenceMonitor(world, cl, plan) if prop in ("C01",) else None
    for pr in plan["producers"]:
        for key, start in pr.get("seq_start", {}).items():
            t, p = key.rsplit("/", 1)
            cl.seq_start[(pr["id"], (t, int(p)))] = start
    nrec = sum(len(op.get("recs", ())) for pr in plan["producers"] for tk in pr["tasks"]
               for op in tk["ops"])
    state = {"producers": {}}

    async def run_task(pr, producer, tk):
        pid = pr["id"]
        order = 0
        for op in tk["ops"]:
            if op["op"] == "flush":
                before = [s for s in obs["sent"] if s.producer == pid and s.fut is not None]
                t0 = world.now()
                how, ftask = await bounded(world, producer.flush(),
                                           producer_time_bound(pr["kwargs"], nrec))
                if how == "hang":
                    # unresolved futures are reported by the oracle; give up on this task
                    world.probe("flush_hang")
                    obs["notes"].append(("flush_hang", pid))
                    return
                if ftask.exception() is not None:
                    obs["notes"].append(("flush_raised", repr(ftask.exception())))
                    continue
                undone = [s.value for s in before if not s.fut.done()]
                obs["flushes"].append({"producer": pid, "t0": t0, "t1": world.now(),
                                       "undone": undone, "n": len(before)})
                continue
            if op["op"] == "sleep":
                await asyncio.sleep(op["s"])
                continue
            topic = op["topic"]
            if op["op"] == "empty":
                try:
                    if op["how"] == "empty_builder":
                        await producer.send_batch(producer.create_batch(), topic, partition=op["partition"])
                    else:
                        await producer.send(topic, b"never", partition=op["partition"], timestamp_ms="12")
                        obs["notes"].append(("bad_timestamp_accepted", pid))
                except Exception as exc:  # noqa: BLE001  (either may be refused: nothing was accepted)
                    obs["notes"].append(("empty_refused", op["how"], type(exc).__name__))
                world.probe("empty_batch_" + op["how"])
                if op.get("think"):
                    await asyncio.sleep(op["think"])
                continue
            if op["op"] == "send_batch":
                try:
                    builder = producer.create_batch()
                except Exception as exc:  # noqa: BLE001
                    obs["notes"].append(("create_batch_raised", repr(exc)))
                    continue
                items = []
                for rec in op["recs"]:
                    value = bytes.fromhex(rec["v"]) + b"." * rec["pad"]
                    key = bytes.fromhex(rec["k"]) if rec["k"] is not None else None
                    hdrs = [(h[0], bytes.fromhex(h[1])) for h in rec["h"]]
                    ts = rec["ts"] if rec["ts"] is not None else int(world.loop.clock.time() * 1000)
                    md = builder.append(key=key, value=value, timestamp=ts, headers=hdrs)
                    if md is None:
                        break
                    s = _mk_sent(value, key, hdrs, ts, pid, tk["name"], order, topic, op["partition"],
                                 "batch")
                    order += 1
                    items.append(s)
                if not items:
                    continue
                try:
                    fut = await producer.send_batch(builder, topic, partition=op["partition"])
                except Exception as exc:  # noqa: BLE001
                    for s in items:
                        s.rejected = repr(exc)
                        obs["sent"].append(s)
                    continue
                bid = len(obs["sent"])
                for i, s in enumerate(items):
                    s.batch_id = bid
                    s.order = (s.order, i)
                    _accept(world, s, fut if i == 0 else None, obs)
                    if i > 0:
                        s.fut = fut
                        s.kind = "batch_member"
            else:
                for rec in op["recs"]:
                    value = bytes.fromhex(rec["v"]) + b"." * rec["pad"]
                    key = bytes.fromhex(rec["k"]) if rec["k"] is not None else None
                    hdrs = [(h[0], bytes.fromhex(h[1])) for h in rec["h"]]
                    s = _mk_sent(value, key, hdrs, rec["ts"], pid, tk["name"], order, topic,
                                 op["partition"], "send")
                    order += 1
                    try:
                        fut = await producer.send(topic, value, key=key, partition=op["partition"],
                                                  timestamp_ms=rec["ts"], headers=hdrs or None)
                    except Exception as exc:  # noqa: BLE001
                        s.rejected = repr(exc)
                        obs["sent"].append(s)
                        continue
                    _accept(world, s, fut, obs)
            if op.get("think"):
                await asyncio.sleep(op["think"])

    async def run_producer(pr):
        pid = pr["id"]
        L.OWNER.set(pid)
        kwargs = dict(pr["kwargs"])
        producer = AIOKafkaProducer(bootstrap_servers=cl.bootstrap(), client_id=pid, **kwargs)
        state["producers"][pid] = producer
        try:
            await producer.start()
        except Exception as exc:  # noqa: BLE001
            obs["notes"].append(("start_raised", pid, repr(exc)))
            try:
                await producer.stop()
            except Exception:  # noqa: BLE001
                pass
            return
        if pr.get("seq_start") and producer._txn_manager is not None:
            for key, start in pr["seq_start"].items():
                t, p = key.rsplit("/", 1)
                producer._txn_manager._sequence_numbers[TopicPartition(t, int(p))] = start
        tasks = [asyncio.ensure_future(run_task(pr, producer, tk)) for tk in pr["tasks"]]
        stop_after = pr.get("stop_after")
        if stop_after is not None:
            # stop() issued at an arbitrary point of the run (C02)
            await asyncio.sleep(stop_after)
        else:
            await asyncio.gather(*tasks)
            ops_done = world.now()
            bound = producer_time_bound(kwargs, nrec)
            while True:
                pending = [s for s in obs["sent"] if s.producer == pid and s.fut is not None
                           and not s.fut.done()]
                if not pending:
                    break
                if world.now() >= max(world.last_fault_effect, ops_done) + bound:
                    break
                await asyncio.sleep(0.05)
        before = [s for s in obs["sent"] if s.producer == pid and s.fut is not None]
        t0 = world.now()
        stop_task = asyncio.ensure_future(producer.stop())
        stop_bound = 10 * producer_time_bound(kwargs, nrec)
        done, _ = await asyncio.wait([stop_task], timeout=stop_bound)
        if not done:
            obs["stops"].append({"producer": pid, "hang": True, "t0": t0})
            world.probe("stop_hang")
        else:
            exc = stop_task.exception()
            undone = [s.value for s in before if not s.fut.done()]
            obs["stops"].append({"producer": pid, "hang": False, "t0": t0, "t1": world.now(),
                                 "undone": undone, "exc": repr(exc) if exc else None,
                                 "early": stop_after is not None})
        for t in tasks:
            if not t.done():
                t.cancel()
        await asyncio.gather(*tasks, return_exceptions=True)

    async def main():
        await asyncio.gather(*[asyncio.ensure_future(run_producer(pr)) for pr in plan["producers"]])
        # let trailing network events (closes) drain
        await asyncio.sleep(0.05)

    res = scenario.run(plan, world, main)
    ntasks = sum(len(pr["tasks"]) for pr in plan["producers"])
    res["nontrivial"] = bool(world.fault_counts) or ntasks >= 2
    if res["status"] == "ok":
        if prop == "C01":
            oracle_c01(plan, world, cl, obs, inflight, seqmon)
        elif prop == "C02":
            oracle_c02(plan, world, cl, obs, nrec)
    scenario.finish(res, world, None)
    res["nsent"] = len(obs["sent"])
    return res


async def bounded(world, aw, bound):
    """Await `aw` but give up once `bound` virtual seconds have passed since the
    later of the call and the end of the last fault's effect."""
    task = asyncio.ensure_future(aw)
    t_start = world.now()
    while not task.done():
        deadline = max(world.last_fault_effect, t_start) + bound
        now = world.now()
        if now >= deadline:
            return "hang", task
        await asyncio.wait([task], timeout=min(0.25, deadline - now))
    return "done", task


def _mk_sent(value, key, hdrs, ts, pid, task, order, topic, partition, kind):
    s = Sent()
    s.value, s.key, s.headers, s.ts = value, key, hdrs, ts
    s.producer, s.task, s.order, s.topic, s.partition = pid, task, order, topic, partition
    s.kind = kind
    s.fut = None
    s.ndone = 0
    s.done_seq = s.done_t = s.result = s.error = None
    s.rejected = None
    s.accept_seq = s.accept_t = None
    s.batch_id = None
    return s


def _accept(world, s, fut, obs):
    s.accept_t = world.now()
    s.accept_seq = world.log.add(world.now(), "accepted", s.producer, s.task, s.value)
    s.fut = fut
    obs["sent"].append(s)
    if fut is None:
        return

    def done(f, s=s):
        s.ndone += 1
        s.done_t = world.now()
        s.done_seq = world.log.add(world.now(), "resolved", s.producer, s.value)
        if f.cancelled():
            s.error = "cancelled"
        elif f.exception() is not None:
            s.error = f.exception()
        else:
            s.result = f.result()

    fut.add_done_callback(done)


# ------------------------------------------------------------------------------------
# online monitors (C01 e, f)


def decode_produce(req):
    cache = getattr(req, "_batches", None)
    if cache is None:
        cache = req._batches = {}
        for t in req.body["topics"]:
            for p in t["partitions"]:
                try:
                    cache[(t["name"], p["partition"])] = recfmt.decode_batches(
                        p["records"] or b"", verify_crc=False, allow_partial=False)
                except Exception:  # noqa: BLE001
                    cache[(t["name"], p["partition"])] = None
    return cache


class InflightMonitor:
    """C01(e): per (client, partition) at most one Produce request outstanding
    from the client's point of view."""

    def __init__(self, world, cl):
        self.world = world
        self.open = {}  # (client, tp) -> (conn id, corr)
        self.byconn = {}  # conn id -> set of keys
        world.subscribe("client_write", self.on_write)
        world.subscribe("client_response", self.on_response)
        world.subscribe("conn_end", self.on_end)
        self.max_overlap = 0

    def on_write(self, conn, req):
        if req.name != "Produce" or req.body["acks"] == 0:
            return
        for t in req.body["topics"]:
            for p in t["partitions"]:
                key = (req.client_id, (t["name"], p["partition"]))
                prev = self.open.get(key)
                if prev is not None:
                    self.world.violation("C01", "two_batches_in_flight", {
                        "client": req.client_id, "tp": list(key[1]), "first": list(prev),
                        "second": [conn.id, req.correlation_id], "t": self.world.now()})
                self.open[key] = (conn.id, req.correlation_id)
                self.byconn.setdefault(conn.id, set()).add(key)

    def on_response(self, conn, tag):
        if tag[0] != "Produce":
            return
        for key in list(self.byconn.get(conn.id, ())):
            if self.open.get(key) == (conn.id, tag[1]):
                del self.open[key]
                self.byconn[conn.id].discard(key)

    def on_end(self, conn, how):
        for key in self.byconn.pop(conn.id, ()):
            if self.open.get(key, (None,))[0] == conn.id:
                del self.open[key]


class SequenceMonitor:
    """C01(f): new batches of a (pid, epoch, partition) present consecutive base
    sequences under Kafka's wrap rule; anything else is a byte-identical resend."""

    def __init__(self, world, cl, plan):
        self.world = world
        self.cl = cl
        self.state = {}  # (pid, epoch, tp) -> {"next": int|None, "seen": {hash: (base, count)}}
        world.subscribe("client_write", self.on_write)
        self.starts = {}
        for pr in plan["producers"]:
            for key, start in pr.get("seq_start", {}).items():
                t, p = key.rsplit("/", 1)
                self.starts[(pr["id"], (t, int(p)))] = start

    def on_write(self, conn, req):
        if req.name != "Produce":
            return
        w = self.world
        for tp, batches in decode_produce(req).items():
            if not batches:
                continue
            for b in batches:
                if b.pid < 0:
                    continue
                key = (b.pid, b.epoch, tp)
                st = self.state.get(key)
                if st is None:
                    st = self.state[key] = {"next": self.starts.get((req.client_id, tp), 0),
                                            "seen": {}}
                ident = (b.base_seq, len(b.records), tuple(r.value for r in b.records))
                if ident in st["seen"]:
                    w.probe("resend_identical")
                    continue
                data = {"client": req.client_id, "tp": list(tp), "pid": b.pid, "epoch": b.epoch,
                        "base_seq": b.base_seq, "count": len(b.records), "expected": st["next"],
                        "start": self.starts.get((req.client_id, tp), 0)}
                if not 0 <= b.base_seq <= INT32_MAX:
                    w.violation("C01", "sequence_out_of_range", data)
                elif b.base_seq != st["next"]:
                    used = any(i[0] == b.base_seq for i in st["seen"])
                    w.violation("C01", "sequence_reused" if used else "sequence_gap", data)
                if b.base_seq >= 0 and b.base_seq + len(b.records) > INT32_MAX:
                    w.probe("sequence_wrap_crossed")
                st["seen"][ident] = True
                base = b.base_seq if 0 <= b.base_seq <= INT32_MAX else (b.base_seq % 2**31)
                st["next"] = seq_inc(base, len(b.records))


# ------------------------------------------------------------------------------------
# history oracles


def log_index(cl):
    """value -> list of (tp, offset, stored, record) over all partitions."""
    idx = {}
    for part in cl.all_partitions():
        for st in part.log:
            for r in st.batch.records:
                idx.setdefault(r.value, []).append((part.tp, r.offset, st, r))
    return idx


def oracle_c01(plan, world, cl, obs, inflight, seqmon):
    idx = log_index(cl)
    accepted = {s.value: s for s in obs["sent"] if s.fut is not None or s.kind == "batch_member"}
    by_prod = {pr["id"]: pr for pr in plan["producers"]}
    # (a) everything in the log was accepted, and is the same record
    for value, occs in idx.items():
        s = accepted.get(value)
        if s is None:
            world.violation("C01", "appended_record_never_accepted",
                            {"value": value.decode("latin1"), "where": [[list(o[0]), o[1]] for o in occs]})
            continue
        for tp, off, st, r in occs:
            if r.key != s.key or [(k, v) for k, v in r.headers] != list(s.headers):
                world.violation("C01", "appended_record_differs",
                                {"value": value.decode("latin1"), "key": repr(r.key), "want": repr(s.key)})
            if s.partition is not None and tp != (s.topic, s.partition):
                world.violation("C01", "appended_to_wrong_partition",
                                {"value": value.decode("latin1"), "tp": list(tp),
                                 "want": [s.topic, s.partition]})
    for s in accepted.values():
        idem = by_prod[s.producer]["kwargs"]["enable_idempotence"]
        occs = idx.get(s.value, [])
        ok = s.fut is not None and s.fut.done() and s.error is None and s.ndone >= 1
        if idem:
            if len(occs) > 1:
                world.violation("C01", "idempotent_record_duplicated",
                                {"value": s.value.decode("latin1"),
                                 "offsets": [[list(o[0]), o[1]] for o in occs]})
            if ok and len(occs) != 1:
                world.violation("C01", "acknowledged_record_not_appended_once",
                                {"value": s.value.decode("latin1"), "n": len(occs)})
        else:
            if ok and len(occs) < 1:
                world.violation("C01", "acknowledged_record_lost",
                                {"value": s.value.decode("latin1")})
    # (c) duplicates only as whole re-sent batches
    for part in cl.all_partitions():
        seen = {}  # value -> index of first batch containing it
        batches = []
        for st in part.log:
            vals = [r.value for r in st.batch.records]
            dup_of = {seen[v] for v in vals if v in seen}
            if dup_of:
                first = min(dup_of)
                if len(dup_of) != 1 or batches[first] != vals:
                    world.violation("C01", "duplicate_not_whole_batch",
                                    {"tp": list(part.tp), "base_offset": st.base_offset,
                                     "batch": [v.decode("latin1") for v in vals],
                                     "earlier": [v.decode("latin1") for v in batches[first]]})
                else:
                    world.probe("whole_batch_duplicate")
            for v in vals:
                seen.setdefault(v, len(batches))
            batches.append(vals)
        # (d) first occurrences in issue order per (producer, task)
        last = {}
        firsts = set()
        for st in part.log:
            for r in st.batch.records:
                if r.value in firsts:
                    continue
                firsts.add(r.value)
                s = accepted.get(r.value)
                if s is None:
                    continue
                k = (s.producer, s.task)
                o = s.order if isinstance(s.order, tuple) else (s.order, 0)
                if k in last and o < last[k][0]:
                    world.violation("C01", "reordered_within_task",
                                    {"tp": list(part.tp), "value": r.value.decode("latin1"),
                                     "offset": r.offset, "after": last[k][1].decode("latin1")})
                last[k] = (o, r.value)


def oracle_c02(plan, world, cl, obs, nrec):
    by_prod = {pr["id"]: pr for pr in plan["producers"]}
    idx = {}
    for part in cl.all_partitions():
        for st in part.log:
            for r in st.batch.records:
                idx[(part.tp, r.offset)] = (st, r)
    retriable_only = True  # the fault generator only produces retriable faults
    for e in world.loop.exc_contexts:
        if e["owner"] != "sim" and e["exc_type"] == "InvalidStateError":
            world.violation("C02", "future_resolved_twice", e)
    stopped_early = {st["producer"] for st in obs["stops"] if st.get("early")}
    hung = {st["producer"] for st in obs["stops"] if st.get("hang")}
    for fl in obs["flushes"]:
        if fl["undone"]:
            world.violation("C02", "flush_returned_with_unresolved",
                            {"producer": fl["producer"], "n": len(fl["undone"]),
                             "first": fl["undone"][0].decode("latin1")})
    for st in obs["stops"]:
        if not st.get("hang") and st.get("undone"):
            world.violation("C02", "stop_returned_with_unresolved",
                            {"producer": st["producer"], "n": len(st["undone"]),
                             "first": st["undone"][0].decode("latin1")})
    for s in obs["sent"]:
        if s.fut is None or s.kind == "batch_member":
            continue
        pr = by_prod[s.producer]
        kw = pr["kwargs"]
        if s.ndone > 1:
            world.violation("C02", "future_resolved_twice", {"value": s.value.decode("latin1")})
        if not s.fut.done():
            world.violation("C02", "future_never_resolved",
                            {"value": s.value.decode("latin1"), "accepted_at": s.accept_t,
                             "last_fault_effect": world.last_fault_effect, "now": world.now(),
                             "stop_hung": s.producer in hung, "faults": dict(world.fault_counts)})
            continue
        if s.error is not None:
            if s.error == "cancelled":
                world.violation("C02", "future_cancelled", {"value": s.value.decode("latin1")})
                continue
            if kw["enable_idempotence"] and retriable_only and s.producer not in stopped_early:
                world.violation("C02", "idempotent_record_failed_on_retriable_faults",
                                {"value": s.value.decode("latin1"), "error": repr(s.error),
                                 "faults": dict(world.fault_counts)})
            continue
        md = s.result
        if kw["acks"] == 0:
            if md is not None:
                world.violation("C02", "acks0_result_not_none", {"result": repr(md)})
            continue
        if md is None:
            world.violation("C02", "result_none_with_acks", {"value": s.value.decode("latin1")})
            continue
        tp = (md.topic, md.partition)
        ent = idx.get((tp, md.offset))
        topic = cl.topics[md.topic]
        if s.partition is not None and tp != (s.topic, s.partition):
            world.violation("C02", "result_wrong_partition", {"got": list(tp)})
        if ent is None or ent[1].value != s.value or ent[1].key != s.key or \
                [(k, v) for k, v in ent[1].headers] != list(s.headers):
            if md.offset == -1:
                # DUPLICATE_SEQUENCE_NUMBER replies carry no coordinates (relaxed)
                world.probe("result_without_coordinates")
                continue
            world.violation("C02", "result_points_at_other_record",
                            {"value": s.value.decode("latin1"), "tp": list(tp), "offset": md.offset,
                             "found": ent[1].value.decode("latin1") if ent else None})
            continue
        st, r = ent
        if md.timestamp_type != topic.ts_type:
            world.violation("C02", "wrong_timestamp_type",
                            {"value": s.value.decode("latin1"), "got": md.timestamp_type,
                             "want": topic.ts_type})
        if s.kind == "batch" and topic.ts_type == 0:
            continue  # a batch future has no single record timestamp to report
        if md.timestamp != r.timestamp:
            world.violation("C02", "wrong_timestamp",
                            {"value": s.value.decode("latin1"), "got": md.timestamp,
                             "stored": r.timestamp, "ts_type": topic.ts_type,
                             "kind": s.kind, "explicit": s.ts})
        if s.ts is not None and topic.ts_type == 0 and r.timestamp != s.ts:
            world.violation("C02", "stored_timestamp_differs_from_sent",
                            {"value": s.value.decode("latin1"), "stored": r.timestamp, "sent": s.ts})
