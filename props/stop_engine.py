"""C19 engine: stop() issued after every k-th event of producer, group-consumer and
group-less-consumer workloads, with the cluster healthy, partially unreachable or
failing over.  Crash-point style enumeration: the scenario is run once to count its
events, then re-run with stop() injected right after event k."""
from __future__ import annotations

import asyncio

from simkit import loop as L
from simkit import recfmt, scenario

KINDS = ("producer", "txn_producer", "group", "simple")
ENVS = ("healthy", "blackhole", "failover", "errors")
# non-retriable error replies that the clients hand to the application
USER_ERRORS = {
    "group": [("JoinGroup", 30), ("JoinGroup", 23), ("FindCoordinator", 30), ("OffsetCommit", 30),
              ("Heartbeat", 30), ("SyncGroup", 30), ("OffsetFetch", 30), ("Fetch", 29)],
    "simple": [("Fetch", 29), ("ListOffsets", 29), ("Metadata", 29)],
    "producer": [("Produce", 29), ("Produce", 10), ("Metadata", 29)],
    "txn_producer": [("AddPartitionsToTxn", 29), ("Produce", 29), ("EndTxn", 47), ("AddPartitionsToTxn", 53)],
}


def gen_plan(seed, index, tier="quick"):
    r = scenario.rng_for(seed, "C19", index)
    combos = [(k, e) for k in KINDS for e in ENVS]
    kind, env = combos[index % len(combos)]
    nbrokers = r.choice([2, 3])
    rt = r.choice([300, 500, 1000])
    cluster = {
        "brokers": nbrokers, "topics": {"t0": {"partitions": r.choice([1, 2, 3])}},
        "lat": [0.0001, r.choice([0.0005, 0.003])], "chunk": r.choice(["whole", "random"]),
        "service_time": r.choice([0.0, 0.0005]), "max_request_timeout": rt / 1000 * 2,
    }
    kw = {"request_timeout_ms": rt, "retry_backoff_ms": r.choice([10, 50, 100]),
          "metadata_max_age_ms": r.choice([300, 1000, 300000])}
    if kind in ("producer", "txn_producer"):
        kw.update({"linger_ms": r.choice([0, 5, 20]), "max_batch_size": r.choice([200, 1000]),
                   "acks": r.choice([1, "all"]) if kind == "producer" else "all",
                   "enable_idempotence": kind == "txn_producer" or r.random() < 0.5})
        if kw["enable_idempotence"]:
            kw["acks"] = "all"
    else:
        session = r.choice([600, 1000, 3000])
        kw.update({
            "fetch_max_wait_ms": r.choice([50, 200]), "max_poll_records": r.choice([None, 3]),
            "auto_offset_reset": "earliest", "consumer_timeout_ms": r.choice([20, 200]),
            "enable_auto_commit": r.random() < 0.7, "auto_commit_interval_ms": r.choice([50, 200, 1000]),
        })
        if kind == "group":
            kw.update({"session_timeout_ms": session, "heartbeat_interval_ms": min(session // 3, r.choice([100, 300])),
                       "rebalance_timeout_ms": session, "max_poll_interval_ms": 10**7})
            kw["request_timeout_ms"] = rt = max(rt, session + 300)
            cluster["max_request_timeout"] = rt / 1000 * 2
    envs = []
    horizon = r.choice([1.0, 2.0, 3.0])
    if env == "blackhole":
        envs.append({"at": round(r.uniform(0.02, horizon * 0.6), 3), "do": "blackhole",
                     "node": r.randint(1, nbrokers), "d": 60.0})
    elif env == "failover":
        for _ in range(r.randint(1, 3)):
            k = r.choice(["coordinator_move", "leader_move", "broker_down", "coordinator_loading"])
            at = round(r.uniform(0.02, horizon * 0.7), 3)
            if k == "coordinator_move":
                envs.append({"at": at, "do": k, "keep": r.random() < 0.5})
            elif k == "leader_move":
                envs.append({"at": at, "do": k, "p": 0, "node": r.randint(1, nbrokers)})
            elif k == "broker_down":
                envs.append({"at": at, "do": k, "node": r.randint(1, nbrokers), "d": r.choice([0.2, 1.0, 30.0])})
            else:
                envs.append({"at": at, "do": k, "d": r.choice([0.2, 1.0])})
    faults = []
    if env == "errors":
        for _ in range(r.randint(1, 2)):
            api, code = r.choice(USER_ERRORS[kind])
            faults.append({"on": {"request": api, "nth": r.randint(1, 6)}, "do": {"reply_error": code}})
    envs.sort(key=lambda e: e["at"])
    plan = {"format": 1, "prop": "C19", "faults": faults, "max_iters": 4_000_000,
            # an application that is not polling when stop() is called (an error handed to
            # the user may then still be unconsumed)
            "idle_pollers": kind in ("group", "simple") and r.random() < 0.4, "engine": "stop", "seed": scenario.subseed(seed, "C19", index),
            "index": index, "kind": kind, "env_kind": env, "cluster": cluster, "kw": kw, "env": envs,
            "horizon": horizon, "static": kind == "group" and r.random() < 0.15,
            "second_member": kind == "group" and r.random() < 0.5,
            "nrec": r.randint(5, 40), "points": 8 if tier == "quick" else 40,
            "points_seed": r.randrange(1 << 30), "sweep": True}
    # consumers whose assignment is replaced before stop(): the topic grows (noticed by the
    # metadata refresh: rebalance / group-less re-assignment), or the application assigns anew
    plan["simple_mode"] = r.choice(["assign", "subscribe"])
    if kind in ("group", "simple") and env in ("healthy", "errors") and r.random() < 0.45:
        at = round(r.uniform(0.05, horizon * 0.7), 3)
        if kind == "simple" and plan["simple_mode"] == "assign" and r.random() < 0.5:
            envs.append({"at": at, "do": "reassign"})
        else:
            envs.append({"at": at, "do": "partitions_grow"})
            kw["metadata_max_age_ms"] = r.choice([100, 300])
        envs.sort(key=lambda e: e["at"])
    return plan


def stop_bound(plan):
    kw = plan["kw"]
    rt = kw["request_timeout_ms"] / 1000
    return ((2 * plan["cluster"]["brokers"] + 6) * rt + kw.get("rebalance_timeout_ms", 0) / 1000
            + kw.get("session_timeout_ms", 0) / 1000 + 10 * kw["retry_backoff_ms"] / 1000 + 0.5)


def execute(plan):
    if plan.get("sweep") and "stop_at" not in plan:
        return execute_sweep(plan)
    return execute_one(plan)


def execute_sweep(plan):
    base = dict(plan)
    base.pop("sweep", None)
    base["stop_at"] = None
    res = execute_one(base)
    total = res.get("fired_at_end", 0)
    r = scenario.rng_for(plan["points_seed"], "points")
    n = plan.get("points", 10)
    if total <= 0:
        ks = []
    elif total <= n:
        ks = list(range(1, total + 1))
    else:
        ks = sorted(r.sample(range(1, total + 1), n))
    sub = 1
    sigs = set()
    res["exhaustive_points"] = total <= n
    for k in ks:
        p = dict(base)
        p["stop_at"] = k
        r2 = execute_one(p)
        sub += 1
        sigs.add((plan["kind"], plan["env_kind"], r2.get("stop_phase")))
        for key in ("faults", "probes"):
            for name, cnt in (r2.get(key) or {}).items():
                res[key][name] = res[key].get(name, 0) + cnt
        res["virt"] = (res.get("virt") or 0) + (r2.get("virt") or 0)
        if r2["status"] not in ("ok", "spin") and res["status"] == "ok":
            res["status"], res["detail"] = r2["status"], r2.get("detail")
        for v in r2.get("violations", []):
            if isinstance(v[2], dict):
                v[2]["_replan"] = p
            res["violations"].append(v)
    res["subruns"] = sub
    res["subsigs"] = sorted(f"{a}/{b}/{c}/{plan['index']}" for a, b, c in sigs)
    res["nontrivial"] = True
    return res


def execute_one(plan):
    from aiokafka import AIOKafkaConsumer, AIOKafkaProducer
    from aiokafka import errors as Errors
    from aiokafka.structs import TopicPartition

    world, cl = scenario.make_world(plan)
    kind = plan["kind"]
    kw = dict(plan["kw"])
    cid = "c0"
    nparts = plan["cluster"]["topics"]["t0"]["partitions"]
    obs = {"stop": None, "notes": [], "harness": [], "client": None, "joined": False}
    B = stop_bound(plan)
    fired0 = {"n": None}

    def append(p, n):
        part = cl.partition("t0", p)
        base = part.next_offset
        recs = [(i, 1_600_000_000_000 + base + i, None, f"t0-{p}@{base + i}".encode(), ())
                for i in range(n)]
        part.add_stored(recfmt.encode_v2(base, recs))

    if kind in ("group", "simple"):
        for p in range(nparts):
            append(p, plan["nrec"])
            for j in range(3):
                world.at(0.1 + 0.3 * j + 0.01 * p, append, p, 2)

    # ---- environment ---------------------------------------------------------------
    def apply_env(e):
        if e["do"] == "blackhole":
            world.faults._apply_env("blackhole", [e["node"], e["d"]])
        elif e["do"] == "coordinator_move":
            ctype, key = (0, "g") if kind == "group" else (1, "tx0")
            world.faults._apply_env("coordinator_move", [ctype, key, e["keep"]])
        elif e["do"] == "leader_move":
            world.faults._apply_env("leader_move", ["t0", e["p"], e["node"]])
        elif e["do"] == "broker_down":
            world.faults._apply_env("broker_down", [e["node"], e["d"]])
        elif e["do"] == "coordinator_loading":
            ctype, key = (0, "g") if kind == "group" else (1, "tx0")
            world.faults._apply_env("coordinator_loading", [cl.coordinator_for(ctype, key), e["d"]])
        elif e["do"] == "partitions_grow":
            p = cl.topics["t0"].add_partition()
            world.log.add(world.now(), "partitions_grow", "t0", p.index)
            world.count_fault("partitions_grow", world.now() + 2 * kw["metadata_max_age_ms"] / 1000)
        elif e["do"] == "reassign":
            c = obs.get("client")
            if c is not None and obs.get("started") and obs["stop"] is None:
                try:
                    c.assign([TopicPartition("t0", p) for p in range(nparts) if p % 2 == 0])
                    world.count_fault("reassign")
                except Exception as exc:  # noqa: BLE001
                    obs["notes"].append(("reassign_raised", repr(exc)[:120]))

    for e in plan["env"]:
        world.at(e["at"], apply_env, e)

    # ---- workload ---------------------------------------------------------------------
    hctx = L.owner_context("h-" + cid)

    def spawn(coro):
        t = hctx.run(asyncio.ensure_future, coro)
        obs["harness"].append(t)
        return t

    async def start_client():
        L.OWNER.set(cid)
        if kind in ("producer", "txn_producer"):
            extra = {"transactional_id": "tx0"} if kind == "txn_producer" else {}
            c = AIOKafkaProducer(bootstrap_servers=cl.bootstrap(), client_id=cid, **kw, **extra)
        elif kind == "group":
            ckw = dict(kw)
            if plan.get("static"):
                ckw["group_instance_id"] = "inst0"
            c = AIOKafkaConsumer("t0", bootstrap_servers=cl.bootstrap(), client_id=cid,
                                 group_id="g", **ckw)
        else:
            if plan.get("simple_mode") == "subscribe":
                c = AIOKafkaConsumer("t0", bootstrap_servers=cl.bootstrap(), client_id=cid, **kw)
            else:
                c = AIOKafkaConsumer(bootstrap_servers=cl.bootstrap(), client_id=cid, **kw)
                c.assign([TopicPartition("t0", p) for p in range(nparts)])
        obs["client"] = c
        try:
            await c.start()
        except Exception as exc:  # noqa: BLE001
            obs["notes"].append(("start_raised", repr(exc)[:200]))
            obs["start_failed"] = True
            return
        obs["started"] = True
        # events are counted from here: stop() is only ever issued on a started client
        fired0["n"] = world.loop.fired

    async def producer_work(c):
        n = 0
        while not obs.get("stopping") and n < 60:
            try:
                if kind == "txn_producer":
                    async with c.transaction():
                        for _ in range(3):
                            n += 1
                            await c.send("t0", f"v{n}".encode(), partition=n % nparts)
                else:
                    n += 1
                    fut = await c.send("t0", f"v{n}".encode(), partition=n % nparts)
                    fut.add_done_callback(lambda f: f.cancelled() or f.exception())
                    if n % 7 == 0:
                        await c.flush()
            except Exception as exc:  # noqa: BLE001
                obs["notes"].append(("work_exc", type(exc).__name__))
                if obs.get("stopping"):
                    return
                await asyncio.sleep(0.02)
            await asyncio.sleep(0.02)

    async def consumer_work(c, how):
        polls = 0
        while True:
            if plan.get("idle_pollers") and polls >= 3:
                # the application went on to do something else
                while not obs.get("stopping"):
                    await asyncio.sleep(0.05)
                return
            polls += 1
            try:
                if how == "getone":
                    await c.getone()
                else:
                    await c.getmany(timeout_ms=100)
            except Errors.ConsumerStoppedError:
                obs["notes"].append(("poller_saw_stopped", how))
                return
            except Errors.KafkaError as exc:
                obs["notes"].append(("poll_exc", type(exc).__name__))
                await asyncio.sleep(0.01)

    async def second_member():
        L.OWNER.set("c1")
        ckw = dict(kw)
        c = AIOKafkaConsumer("t0", bootstrap_servers=cl.bootstrap(), client_id="c1", group_id="g", **ckw)
        obs["c1"] = c
        try:
            await c.start()
            while not obs.get("finish"):
                try:
                    await c.getmany(timeout_ms=100)
                except Errors.KafkaError:
                    await asyncio.sleep(0.01)
        except Exception:  # noqa: BLE001
            pass
        finally:
            try:
                await asyncio.wait_for(c.stop(), 5 * B)
            except BaseException:  # noqa: BLE001
                pass

    async def do_stop():
        c = obs["client"]
        st = obs["stop"] = {"t_call": world.now(), "seq_call": world.log.add(world.now(), "stop_call", cid),
                            "returned": False, "exc": None, "coord_reachable": _coord_reachable(),
                            "member": _member_id(), "phase": _phase(c)}
        obs["stopping"] = True
        if kind in ("producer", "txn_producer"):
            # records accepted but not yet acknowledged when stop() is called (it has to flush them)
            try:
                acc = c._message_accumulator
                st["unsent"] = sum(len(b) for b in acc._batches.values()) + len(acc._pending_batches)
            except Exception:  # noqa: BLE001
                st["unsent"] = None
            # work that stop() has to finish first: unsent batches, or a transaction in progress
            try:
                tm = c._txn_manager
                st["busy"] = bool(st["unsent"]) or (
                    kind == "txn_producer" and tm is not None
                    and tm.state.name in ("IN_TRANSACTION", "COMMITTING_TRANSACTION", "ABORTING_TRANSACTION"))
            except Exception:  # noqa: BLE001
                st["busy"] = True
        try:
            await c.stop()
        except (Exception, asyncio.CancelledError) as exc:  # noqa: BLE001
            if obs.get("finish"):
                raise  # teardown of the run, not an outcome of stop()
            st["exc"] = repr(exc)[:200]
        if obs.get("finish"):
            return
        st["returned"] = True
        st["t_ret"] = world.now()
        st["seq_ret"] = world.log.add(world.now(), "stop_ret", cid)

    def _coord_reachable():
        if kind != "group":
            return None
        node = cl.coordinator_for(0, "g")
        br = cl.brokers.get(node)
        loading = cl.coordinator_loading.get(node)
        return bool(br and br.up and not br.blackhole and not (loading and world.now() < loading))

    def _member_id():
        if kind != "group" or cl.groups is None:
            return None
        g = cl.groups.groups.get("g")
        if not g:
            return None
        for mm in g.members.values():
            if mm.client_id == cid:
                return mm.id
        return None

    def _phase(c):
        try:
            if kind == "group":
                co = c._coordinator
                return "rejoining" if co._rejoin_needed_fut.done() else "stable"
        except Exception:  # noqa: BLE001
            pass
        return "run"

    stop_at = plan.get("stop_at")

    def on_event(k):
        if stop_at is not None and not obs.get("stop_spawned") and fired0["n"] is not None \
                and k - fired0["n"] == stop_at and obs["client"] is not None:
            obs["stop_spawned"] = True
            spawn(do_stop())

    prev = world.loop.on_event

    def chained(k):
        if prev is not None:
            prev(k)
        on_event(k)

    world.loop.on_event = chained

    async def main():
        starter = spawn(start_client())
        if plan.get("second_member"):
            L.owner_context("c1").run(asyncio.ensure_future, second_member())
        # wait for the start (stop may already be injected while it runs)
        await asyncio.wait([starter], timeout=10 * B)
        c = obs["client"]
        if obs.get("started") and not obs.get("stopping"):
            if kind in ("producer", "txn_producer"):
                spawn(producer_work(c))
            else:
                spawn(consumer_work(c, "getmany"))
                spawn(consumer_work(c, "getone"))
        # let the scenario play
        t_end = world.t0 + plan["horizon"]
        while world.now() < t_end and not obs.get("stop_spawned"):
            await asyncio.sleep(0.02)
        obs["fired_at_end"] = world.loop.fired - fired0["n"] if fired0["n"] is not None else 0
        if not obs.get("started"):
            # start() itself failed or hangs (e.g. cluster unreachable from the beginning):
            # nothing to stop in the sense of the property
            obs["finish"] = True
            try:
                await asyncio.wait_for(obs["client"].stop(), 10 * B)
            except BaseException:  # noqa: BLE001
                pass
            return
        if not obs.get("stop_spawned"):
            # baseline run, or the scenario ended before event k: stop at the end of the
            # horizon (judged like any other stop point)
            obs["stop_spawned"] = True
            spawn(do_stop())
        while obs["stop"] is None:
            await asyncio.sleep(0)
        st = obs["stop"]
        # wait for stop() to return: bounded, then up to 10x (hang classification)
        deadline = st["t_call"] + 10 * B
        while not st["returned"] and world.now() < deadline:
            await asyncio.sleep(min(0.05, B / 10))
        if st["returned"]:
            # harness pollers blocked in the API must be released with the documented error
            t0 = world.now()
            while world.now() < t0 + B and any(not t.done() for t in obs["harness"]):
                await asyncio.sleep(0.05)
            await check_after_stop(c)
        obs["finish"] = True
        await asyncio.sleep(0.05)

    async def check_after_stop(c):
        st = obs["stop"]
        st["api"] = []
        try:
            if kind in ("producer", "txn_producer"):
                await asyncio.wait_for(c.send("t0", b"late", partition=0), B)
                st["api"].append(("send", "returned"))
            else:
                for name in ("getone", "getmany"):
                    try:
                        if name == "getone":
                            await asyncio.wait_for(c.getone(), B)
                        else:
                            await asyncio.wait_for(c.getmany(timeout_ms=10), B)
                        st["api"].append((name, "returned"))
                    except Exception as exc:  # noqa: BLE001
                        st["api"].append((name, type(exc).__name__))
        except Exception as exc:  # noqa: BLE001
            st["api"].append(("send", type(exc).__name__))

    res = scenario.run(plan, world, main)
    res["nontrivial"] = True
    res["fired_at_end"] = obs.get("fired_at_end", 0)
    st = obs["stop"]
    res["stop_phase"] = (st or {}).get("phase")
    if res["status"] == "ok" and st is not None and obs["client"] is not None:
        oracle(plan, world, cl, obs, B)
    scenario.finish(res, world, None)
    return res


def _deep_stack(task, limit=8):
    """Frames of a suspended task including the coroutines it awaits."""
    out = []
    coro = task.get_coro()
    while coro is not None and len(out) < limit:
        fr = getattr(coro, "cr_frame", None) or getattr(coro, "gi_frame", None)
        if fr is None:
            break
        out.append(fr)
        coro = getattr(coro, "cr_await", None) or getattr(coro, "gi_yieldfrom", None)
    return out


def oracle(plan, world, cl, obs, B):
    st = obs["stop"]
    kind = plan["kind"]
    cid = "c0"
    loop = world.loop
    base = {"kind": kind, "env": plan["env_kind"], "stop_at": plan.get("stop_at"),
            "idempotent": bool(plan["kw"].get("enable_idempotence")),
            "unsent_at_stop": st.get("unsent"), "busy_at_stop": st.get("busy"),
            "phase": st.get("phase"), "faults": dict(world.fault_counts),
            "t_call": round(st["t_call"] - world.t0, 4)}
    if not st["returned"]:
        stacks = []
        for t in loop.all_tasks_created:
            if not t.done() and t.get_context().get(L.OWNER, "sim") in (cid, "h-" + cid):
                try:
                    fr = _deep_stack(t)
                    stacks.append([f"{f.f_code.co_filename.rsplit('/', 1)[-1]}:{f.f_lineno}" for f in fr])
                except Exception:  # noqa: BLE001
                    pass
        world.violation("C19", "stop_never_returned", dict(base, bound=round(B, 2), stacks=stacks[:8]))
        return
    took = st["t_ret"] - st["t_call"]
    if took > B:
        world.violation("C19", "stop_exceeded_bound", dict(base, took=round(took, 3), bound=round(B, 2)))
    if st["exc"] is not None:
        world.probe("stop_raised")
        world.violation("C19", "stop_raised", dict(base, exc=st["exc"]))
    # nothing of the client left running
    harness = set(obs["harness"])
    tasks = [t for t in loop.all_tasks_created if not t.done() and t not in harness
             and t.get_context().get(L.OWNER, "sim") in (cid, "h-" + cid)]
    if tasks:
        desc = []
        for t in tasks[:6]:
            try:
                fr = _deep_stack(t)
                desc.append([t.get_name()] + [f"{f.f_code.co_filename.rsplit('/', 1)[-1]}:{f.f_lineno}" for f in fr])
            except Exception:  # noqa: BLE001
                desc.append([t.get_name()])
        world.violation("C19", "task_alive_after_stop", dict(base, tasks=desc))
    blocked = [t for t in obs["harness"] if not t.done()]
    if blocked:
        desc = []
        for t in blocked[:4]:
            try:
                fr = _deep_stack(t)
                desc.append([f"{f.f_code.co_filename.rsplit('/', 1)[-1]}:{f.f_lineno}" for f in fr])
            except Exception:  # noqa: BLE001
                pass
        world.violation("C19", "api_call_still_blocked_after_stop", dict(base, stacks=desc))
    timers = [h for h in loop.live_handles(cid) if isinstance(h, asyncio.TimerHandle)]
    if timers:
        world.violation("C19", "timer_alive_after_stop", dict(
            base, timers=[L._describe(h) for h in timers[:5]]))
    open_tr = [c for c in world.net.conns if c is not None and c.owner == cid
               and not (c.client_closed or c.client_lost)]
    if open_tr:
        world.violation("C19", "connection_open_after_stop", dict(base, conns=[c.id for c in open_tr]))
    # later API calls fail with the documented error
    want = "ProducerClosed" if kind in ("producer", "txn_producer") else "ConsumerStoppedError"
    for name, got in st.get("api", []):
        if got != want and not (kind == "txn_producer" and got == "IllegalOperation"):
            # (a transactional producer refuses a send outside a transaction first)
            world.violation("C19", "api_after_stop_did_not_raise_documented_error",
                            dict(base, call=name, got=got, want=want))
    # a consumer that could reach its coordinator has left the group
    if kind == "group" and not plan.get("static") and st.get("member") and st.get("coord_reachable") \
            and plan["env_kind"] == "healthy":
        left = any(e["kind"] == "leave" and e.get("member") == st["member"] for e in cl.groups.ledger)
        if not left:
            g = cl.groups.groups.get("g")
            still = g is not None and st["member"] in g.members
            if still:
                world.violation("C19", "member_did_not_leave_group", dict(base, member=st["member"]))
