"""C02 - every send future resolves once, with the record's true coordinates."""
from props import producer_engine as E

PROP = "C02"
LEVEL = "exploration"
RUNS = {"quick": 10000, "thorough": 400000}


def gen_plan(seed, index, tier="quick"):
    return E.gen_plan(PROP, seed, index, tier)


def execute(plan):
    return E.execute(plan)
