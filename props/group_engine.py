"""Group engine: 1..4 real AIOKafkaConsumer group members on one loop against
the group coordinator model.  Serves C04 (commits vs deliveries), C05
(ownership / callbacks), C06 (membership convergence, request discipline) and
the group part of C13 (start at the committed offset)."""
from __future__ import annotations

import asyncio
import os
import struct

from props import loggen
from simkit import loop as L
from simkit import recfmt, scenario

GROUP = "g"
ASSIGNORS = ["range", "roundrobin", "sticky"]
ERR = {
    "JoinGroup": [14, 15, 16, 25],
    "SyncGroup": [15, 16, 22, 25, 27],
    "Heartbeat": [15, 16, 22, 25, 27],
    "OffsetCommit": [14, 15, 16, 22, 25, 27, 7],
    "OffsetFetch": [14, 16],
    "FindCoordinator": [15],
    "LeaveGroup": [15, 16, 25],
}


# ------------------------------------------------------------------------------------
# plan generation


def gen_plan(prop, seed, index, tier="quick"):
    r = scenario.rng_for(seed, prop, index)
    nbrokers = r.choice([1, 2, 3])
    ntopics = r.choice([1, 1, 2, 3]) if prop in ("C05", "C06") else r.choice([1, 1, 2])
    topics = {f"t{i}": {"partitions": r.randint(1, 4)} for i in range(ntopics)}
    join_max = 5
    if prop == "C06":
        join_max = r.choice([0, 1, 2, 5, 5, 5])
    cluster = {
        "brokers": nbrokers, "topics": topics,
        "lat": [0.0001, r.choice([0.0005, 0.003, 0.02])],
        "chunk": r.choice(["whole", "random"]),
        "service_time": r.choice([0.0, 0.0005, 0.005]),
        "initial_rebalance_delay": r.choice([0.0, 0.0, 0.05, 0.3]),
        "api_versions": {"11": [0, join_max], "14": [0, 3 if join_max >= 5 else min(join_max, 1)],
                         # OffsetFetch v1 reports coordinator errors per partition, v2+ at top level
                         "9": [0, r.choice([1, 1, 2, 3]) if prop in ("C13", "C06", "C04") else 3]},
        "hb_completing_rip": r.random() < 0.3,
    }
    session = r.choice([600, 1000, 3000, 6000])
    hb = r.choice([100, 200, 300, 1000])
    hb = min(hb, session // 3)
    rebalance = r.choice([session, session, 2 * session])
    rt = max(rebalance + r.choice([500, 1000, 3000]), 1000)
    nassign = r.choice([1, 1, 2, 3]) if prop == "C06" else r.choice([1, 1, 1, 2])
    strategy = r.sample(ASSIGNORS, nassign)
    auto = True if prop in ("C04", "C13") and r.random() < 0.7 else r.random() < 0.5
    base_kw = {
        "session_timeout_ms": session, "heartbeat_interval_ms": hb,
        "rebalance_timeout_ms": rebalance, "request_timeout_ms": rt,
        "retry_backoff_ms": r.choice([10, 50, 100]),
        "enable_auto_commit": auto,
        "auto_commit_interval_ms": r.choice([50, 200, 1000, 2000]),
        "auto_offset_reset": "earliest",
        "max_poll_interval_ms": 10**7,
        # (C06 is about the control plane: long fetch waits keep the data plane cheap)
        "fetch_max_wait_ms": r.choice([50, 200]) if prop != "C06" else r.choice([200, 500, 1000]),
        "max_poll_records": r.choice([None, 1, 3, 10]),
        "metadata_max_age_ms": r.choice([500, 2000, 300000]),
        "consumer_timeout_ms": r.choice([20, 200]),
    }
    # (requests queue behind a long-poll Fetch on the same connection: keep that wait below
    # the group timeouts, as any sane configuration does)
    base_kw["fetch_max_wait_ms"] = min(base_kw["fetch_max_wait_ms"], max(50, session // 3))
    napping = prop in ("C05", "C06", "C04") and r.random() < 0.2
    if napping:
        base_kw["max_poll_interval_ms"] = r.choice([300, 500, 800])
    nmem = r.randint(1, 4) if prop != "C13" else r.randint(1, 2)
    horizon = r.choice([4.0, 8.0, 15.0])
    members = []
    for i in range(nmem):
        subs = sorted(topics)
        if prop in ("C05", "C06") and ntopics > 1 and r.random() < 0.3:
            subs = sorted(r.sample(sorted(topics), r.randint(1, ntopics)))
        members.append({
            "id": f"m{i}", "join_at": 0.0 if i == 0 else round(r.choice([0.0, 0.0, 0.3, 1.0, 2.5]), 2),
            "topics": subs, "pattern": (prop in ("C05",) and r.random() < 0.15),
            "strategy": strategy if r.random() < 0.9 else r.sample(strategy, len(strategy)),
            "poll": r.choice(["getmany", "getmany", "getone"]),
            "poll_timeout_ms": r.choice([20, 100, 300]),
            "commit_every": 0 if auto else r.choice([0, 1, 3, 8]),
            "cb_delay": r.choice([0.0, 0.0, 0.01, 0.2]) if prop in ("C05", "C06") else 0.0,
            "static": (prop in ("C06", "C05") and join_max >= 5 and r.random() < 0.15),
            # stops polling for longer than max_poll_interval_ms once (the member leaves the
            # group by itself, others take over, then the application comes back)
            "nap": ({"after_polls": r.randint(2, 30), "d": round(base_kw["max_poll_interval_ms"] / 1000
                                                               * r.choice([1.5, 3.0, 6.0]), 2)}
                    if napping and r.random() < 0.6 else None),
        })
    # environment script
    env = []
    if r.random() < 0.75:
        kinds = ["kill", "stop", "restart", "join", "session_expire", "coordinator_move",
                 "coordinator_loading", "broker_down"]
        if nbrokers >= 2:
            kinds.append("broker_failover")
        if prop in ("C05", "C06"):
            kinds += ["partitions_grow", "topic_create", "resubscribe"]
        if prop in ("C04", "C13", "C05"):
            # leaders of data partitions moving / missing while positions are looked up
            kinds += ["leader_unavailable", "leader_move"]
        if prop == "C07":
            kinds = []
        enabled = r.sample(kinds, r.randint(1, len(kinds)))
        nid = nmem
        for _ in range(r.randint(1, 5)):
            k = r.choice(enabled)
            at = round(r.uniform(0.2, horizon * 0.6), 3)
            tgt = f"m{r.randrange(nmem)}"
            if k in ("kill", "stop", "session_expire", "restart", "resubscribe"):
                e = {"at": at, "do": k, "member": tgt}
                if k == "resubscribe":
                    e["topics"] = sorted(r.sample(sorted(topics), r.randint(1, ntopics)))
                env.append(e)
            elif k == "join" and nid < 6:
                spec = dict(members[0], id=f"m{nid}", join_at=at, static=False)
                nid += 1
                env.append({"at": at, "do": "join", "spec": spec})
            elif k == "coordinator_move":
                env.append({"at": at, "do": "coordinator_move", "keep": r.random() < 0.5})
            elif k == "coordinator_loading":
                env.append({"at": at, "do": "coordinator_loading", "d": r.choice([0.1, 0.5, 1.5])})
            elif k == "broker_down":
                env.append({"at": at, "do": "broker_down", "node": r.randint(1, nbrokers),
                            "d": r.choice([0.2, 1.0])})
            elif k == "broker_failover":
                # a broker dies (the coordinator's, or any): its roles move to another for good
                env.append({"at": at, "do": "broker_failover",
                            "node": r.choice(["coordinator", "coordinator", r.randint(1, nbrokers)]),
                            "d": r.choice([0.5, 3.0, 1e6])})
            elif k in ("leader_unavailable", "leader_move"):
                t = r.choice(sorted(topics))
                e = {"at": at if r.random() < 0.5 else round(r.uniform(0.0, 0.3), 3), "do": k, "topic": t,
                     "p": r.randrange(topics[t]["partitions"])}
                if k == "leader_unavailable":
                    e["d"] = r.choice([0.05, 0.3, 1.0])
                else:
                    e["node"] = r.randint(1, nbrokers)
                env.append(e)
            elif k == "partitions_grow":
                env.append({"at": at, "do": "partitions_grow", "topic": r.choice(sorted(topics))})
            elif k == "topic_create":
                env.append({"at": at, "do": "topic_create", "topic": f"t{ntopics + len(env)}x",
                            "partitions": r.randint(1, 3)})
    if prop == "C13" and r.random() < 0.35:
        # a partition without a leader while the group forms: its committed-offset lookup
        # starts later than the others' (lookups overlapping an OffsetFetch in flight)
        t = r.choice(sorted(topics))
        env.append({"at": round(r.uniform(0.0, 0.15), 3), "do": "leader_unavailable", "topic": t,
                    "p": r.randrange(topics[t]["partitions"]), "d": r.choice([0.1, 0.3, 0.6])})
    env.sort(key=lambda e: e["at"])
    if any(e["do"] in ("partitions_grow", "topic_create") for e in env):
        # new partitions / topics are only discovered by the periodic metadata refresh
        base_kw["metadata_max_age_ms"] = r.choice([500, 2000])
    faults = []
    if r.random() < 0.6:
        apis = list(ERR)
        for _ in range(r.randint(1, 6 if prop == "C06" else 4)):
            api = r.choice(apis)
            trig = {"request": api, "nth": r.randint(1, 6)}
            k = r.choice(["reply_error", "reply_error", "drop_before_apply", "drop_after_apply",
                          "lose_response", "delay"])
            if k == "reply_error":
                faults.append({"on": trig, "do": {"reply_error": r.choice(ERR[api])}})
            elif k in ("drop_before_apply", "drop_after_apply"):
                faults.append({"on": trig, "do": {k: r.choice(["eof", "reset"])}})
            elif k == "lose_response":
                faults.append({"on": trig, "do": "lose_response"})
            else:
                faults.append({"on": trig, "do": {"delay": r.choice([0.01, 0.2])}})
    if prop in ("C04", "C05") and r.random() < 0.25:
        # one fetch response corrupted on the way (a later batch of it): the consumer raises
        # CorruptRecordException, the application polls again, nothing may be skipped
        for _ in range(r.randint(1, 2)):
            faults.append({"on": {"request": "Fetch", "nth": r.randint(1, 12)}, "do": "corrupt_once"})
        base_kw["check_crcs"] = True
    if prop == "C13" and r.random() < 0.35:
        # the committed-offset lookup itself failing with a retriable coordinator error
        faults.append({"on": {"request": "OffsetFetch", "nth": r.randint(1, 3)},
                       "do": {"reply_error": r.choice([14, 14, 16])}})
    if (env or faults) and base_kw["metadata_max_age_ms"] > 2000:
        # a metadata update that fails under a fault is only repeated by the periodic refresh
        # (e.g. the group leader learning the topics of the other members): keep that period
        # inside the run, the liveness bound accounts for it
        base_kw["metadata_max_age_ms"] = r.choice([500, 2000])
    # logs
    logs = []
    for t, d in sorted(topics.items()):
        for p in range(d["partitions"]):
            n = r.randint(0, 25)
            logs.append({"tp": f"{t}/{p}", "n": n,
                         "appends": sorted(round(r.uniform(0.1, horizon * 0.5), 3)
                                           for _ in range(r.choice([0, 1, 3, 6])))})
    if prop in ("C04", "C05") and r.random() < 0.4:
        # rich logs: transactions of several producers (committed / aborted / open),
        # markers, compaction gaps, compressed and legacy batches - the records a commit
        # may pass are the *visible* ones of the member's isolation level
        for lg in logs:
            t, p = lg["tp"].rsplit("/", 1)
            lr = scenario.rng_for(seed, prop, index, "log", lg["tp"])
            descs, end = loggen.gen_log(lr, t, int(p), nrec=lr.randint(0, 40),
                                        legacy=lr.random() < 0.3, txn=True,
                                        compaction=lr.random() < 0.5)
            lg["descs"] = descs
            segs = []
            for at in lg["appends"]:
                more, end = loggen.gen_log(lr, t, int(p), nrec=lr.randint(1, 6), legacy=False,
                                           txn=lr.random() < 0.5, compaction=False, start=end)
                segs.append({"at": at, "descs": more})
            lg["segments"] = segs
        base_kw["isolation_level"] = r.choice(["read_committed", "read_committed", "read_uncommitted"])
        base_kw["max_partition_fetch_bytes"] = r.choice([300, 1000, 1048576, 1048576])
        base_kw["check_crcs"] = r.random() < 0.7 or any(f.get("do") == "corrupt_once" for f in faults)
    committed = {}
    if prop == "C13":
        for lg in logs:
            x = r.random()
            if x < 0.4:
                committed[lg["tp"]] = r.randint(0, lg["n"])
            elif x < 0.5:
                committed[lg["tp"]] = lg["n"] + r.randint(1, 30)  # beyond the log end
        base_kw["auto_offset_reset"] = r.choice(["earliest", "latest", "none"])
        base_kw["isolation_level"] = r.choice(["read_uncommitted", "read_committed"])
    if prop == "C06" and index % 3 == 1:
        # focus family: membership changes that force later generations, and exactly one
        # group-protocol request of a later round answered with an error, lost, or cut off
        fr = scenario.rng_for(seed, prop, index, "focus")
        env = [e for e in env if e["do"] in ("join", "stop", "restart", "resubscribe",
                                              "partitions_grow", "session_expire")][:2]
        if not env:
            at = round(fr.uniform(0.4, 2.0), 3)
            if fr.random() < 0.5 and len(members) < 5:
                env = [{"at": at, "do": "join",
                        "spec": dict(members[0], id=f"m{len(members)}", join_at=at, static=False)}]
            else:
                env = [{"at": at, "do": fr.choice(["restart", "session_expire"]),
                        "member": f"m{fr.randrange(len(members))}"}]
        api = fr.choice(["SyncGroup", "SyncGroup", "JoinGroup", "JoinGroup", "Heartbeat",
                         "FindCoordinator", "OffsetCommit"])
        do = fr.choice([{"reply_error": fr.choice(ERR[api])}, {"reply_error": fr.choice(ERR[api])},
                        "lose_response", {"drop_after_apply": "reset"}, {"drop_before_apply": "eof"}])
        faults = [{"on": {"request": api, "nth": fr.randint(2, 10)}, "do": do}]
        if fr.random() < 0.15:
            # instead: a subscribed topic grows while a SyncGroup is being answered slowly, and
            # the members refresh their metadata often enough to notice inside that window
            tname = fr.choice(sorted(topics))
            nth = fr.randint(1, 6)
            faults = [{"on": {"request": "SyncGroup", "nth": nth}, "do": {"delay": fr.choice([0.3, 0.6])}},
                      {"on": {"request": "SyncGroup", "nth": nth}, "do": {"partitions_grow": tname}}]
            base_kw["metadata_max_age_ms"] = fr.choice([100, 200])
        elif nbrokers >= 2 and fr.random() < 0.45:
            # instead: the coordinator's broker dies around a membership change - at a time,
            # or shortly after it has answered some group request (nothing in flight then)
            faults = []
            if fr.random() < 0.5:
                env.append({"at": round(env[0]["at"] + fr.choice([0.0, 0.02, 0.1, 0.3, 1.0]), 3),
                            "do": "broker_failover", "node": "coordinator", "d": fr.choice([3.0, 1e6])})
                env.sort(key=lambda e: e["at"])
            else:
                faults = [{"on": {"request": fr.choice(["Heartbeat", "Heartbeat", "JoinGroup", "SyncGroup",
                                                        "OffsetCommit", "OffsetFetch"]),
                                  "nth": fr.randint(2, 14)},
                           "do": {"broker_failover": ["serving_then", fr.choice([3.0, 1e6, 1e6]),
                                                      fr.choice([2 * cluster["lat"][1] + 0.001, 0.01, 0.05])]}}]
        if fr.random() < 0.6:
            base_kw["enable_auto_commit"] = False
            for m in members:
                m["commit_every"] = fr.choice([0, 0, 3])
        if base_kw["metadata_max_age_ms"] > 2000:
            base_kw["metadata_max_age_ms"] = 2000
    return {"format": 1, "prop": prop, "engine": "group", "seed": scenario.subseed(seed, prop, index),
            "max_iters": 1_500_000,
            "index": index, "cluster": cluster, "kw": base_kw, "members": members, "env": env,
            "faults": faults, "logs": logs, "horizon": horizon, "committed": committed}


# ------------------------------------------------------------------------------------
# helpers


def parse_assignment(b):
    """Independent ConsumerProtocol assignment parser -> set of (topic, partition)."""
    if not b:
        return set()
    pos = 0
    (ver,) = struct.unpack_from(">h", b, pos)
    pos += 2
    (n,) = struct.unpack_from(">i", b, pos)
    pos += 4
    out = set()
    for _ in range(n):
        (ln,) = struct.unpack_from(">h", b, pos)
        pos += 2
        topic = b[pos:pos + ln].decode()
        pos += ln
        (m,) = struct.unpack_from(">i", b, pos)
        pos += 4
        for _ in range(m):
            (p,) = struct.unpack_from(">i", b, pos)
            pos += 4
            out.add((topic, p))
    return out


def parse_subscription(b):
    pos = 2
    (n,) = struct.unpack_from(">i", b, pos)
    pos += 4
    out = []
    for _ in range(n):
        (ln,) = struct.unpack_from(">h", b, pos)
        pos += 2
        out.append(b[pos:pos + ln].decode())
        pos += ln
    return out


def group_bound(kw):
    b = 3 * (kw["session_timeout_ms"] / 1000 + kw["rebalance_timeout_ms"] / 1000
             + 2 * kw["heartbeat_interval_ms"] / 1000 + 2 * kw["request_timeout_ms"] / 1000
             + 10 * kw["retry_backoff_ms"] / 1000) + 1.0
    if kw.get("metadata_max_age_ms", 10**9) <= 2000:
        b += 2 * kw["metadata_max_age_ms"] / 1000  # a failed metadata update waits for the next refresh
    return b


class MemberObs:
    def __init__(self, cid, spec):
        self.cid = cid
        self.spec = spec
        self.consumer = None
        self.state = "new"  # new running stopped killed
        self.callbacks = []  # dicts: kind, begin, end, tps, snapshot
        self.deliveries = []  # (seq, tp, offset)
        self.owned = None  # set of tps between assigned-begin and next revoke-begin
        self.errors = []
        self.commits = []  # manual commit results
        self.task = None
        self.stop_flag = False
        self.subscribed = list(spec["topics"])
        self.sub_changes = []  # seq of subscription-changing API calls
        self.incarnation_start = None
        self.seeks = []  # (seq, tp) harness seeks after NoOffsetForPartition / OffsetOutOfRange


def execute(plan):
    from aiokafka import AIOKafkaConsumer, ConsumerRebalanceListener
    from aiokafka import errors as Errors
    from aiokafka.coordinator.assignors.range import RangePartitionAssignor
    from aiokafka.coordinator.assignors.roundrobin import RoundRobinPartitionAssignor
    from aiokafka.coordinator.assignors.sticky.sticky_assignor import StickyPartitionAssignor

    world, cl = scenario.make_world(plan)
    prop = plan["prop"]
    kw = plan["kw"]
    groups = cl.groups
    groups.hb_completing_rebalance_in_progress = plan["cluster"].get("hb_completing_rip", False)
    serial = {"n": 0}
    truth = {}  # tp -> number of records appended so far (offsets 0..n-1)

    def append(tp, n):
        part = cl.partition(*tp)
        if part is None or n <= 0:
            return
        base = part.next_offset
        recs = [(i, 1_600_000_000_000 + base + i, None, f"{tp[0]}-{tp[1]}@{base + i}".encode(), ())
                for i in range(n)]
        part.add_stored(recfmt.encode_v2(base, recs))

    mbytes = 0
    for lg in plan["logs"]:
        t, p = lg["tp"].rsplit("/", 1)
        if "descs" in lg:
            loggen.materialise(cl, t, int(p), lg["descs"])
            for seg in lg.get("segments", []):
                world.at(seg["at"], loggen.materialise, cl, t, int(p), seg["descs"])
                for d in seg["descs"]:
                    mbytes = max(mbytes, len(loggen.encode_desc(t, int(p), d)))
            continue
        left = lg["n"]
        k = 0
        while left > 0:
            # several batches, so that one response usually carries more than one
            take = min(left, 2 + (k * 7 + lg["n"]) % 5)
            append((t, int(p)), take)
            left -= take
            k += 1
        for at in lg["appends"]:
            world.at(at, append, (t, int(p)), 1 + (int(at * 1000) % 3))
    if "max_partition_fetch_bytes" in kw:
        # generators never create a batch that cannot be fetched (RecordTooLarge skips by design)
        kw = dict(kw)
        kw["max_partition_fetch_bytes"] = max(kw["max_partition_fetch_bytes"],
                                              max(mbytes, loggen.max_batch_bytes(cl)) + 1)
    for key, off in plan.get("committed", {}).items():
        t, p = key.rsplit("/", 1)
        cl.group_offsets.setdefault(GROUP, {})[(t, int(p))] = (off, "")
    served = []  # (seq, client, kind, tp, value)  OffsetFetch / ListOffsets replies

    served_key = {}  # seq of an OffsetFetch entry in `served` -> (conn id, api, correlation id)

    def on_of(req, group, tp, off):
        served.append((world.log.seq, req.client_id, "committed", tp, off))
        served_key[world.log.seq] = (req.conn.id, "OffsetFetch", req.correlation_id)

    def on_lo(broker, conn, req, tp, ts, off):
        served.append((world.log.seq, req.client_id, "list", tp, (ts, off)))

    delivered_resp = set()  # (conn id, api, correlation id) responses that reached a client

    leave_acks = {}  # client id -> [(seq, t)] LeaveGroup replies that reached the member

    def on_cr(conn, tag):
        if isinstance(tag, tuple) and len(tag) == 2:
            delivered_resp.add((conn.id, tag[0], tag[1]))
            if tag[0] == "LeaveGroup":
                leave_acks.setdefault(conn.owner, []).append((world.log.seq, world.now()))

    world.subscribe("client_response", on_cr)
    world.subscribe("offset_fetch_reply", on_of)
    world.subscribe("list_offsets_reply", on_lo)
    members = {}
    env_log = []  # (seq, t, what, member)

    def mk_strategy(cid, names):
        out = []
        for n in names:
            if n == "range":
                out.append(RangePartitionAssignor)
            elif n == "roundrobin":
                out.append(RoundRobinPartitionAssignor)
            else:
                out.append(type(f"Sticky_{cid.replace('#', '_')}", (StickyPartitionAssignor,), {}))
        return tuple(out)

    class Listener(ConsumerRebalanceListener):
        def __init__(self, m):
            self.m = m

        async def on_partitions_revoked(self, revoked):
            m = self.m
            cb = {"kind": "revoked", "begin": world.log.add(world.now(), "cb_revoked_begin", m.cid),
                  "tps": sorted((tp.topic, tp.partition) for tp in revoked), "end": None}
            m.callbacks.append(cb)
            m.owned = None
            if m.spec["cb_delay"]:
                await asyncio.sleep(m.spec["cb_delay"])
            cb["end"] = world.log.add(world.now(), "cb_revoked_end", m.cid)

        async def on_partitions_assigned(self, assigned):
            m = self.m
            snap = sorted((tp.topic, tp.partition) for tp in m.consumer.assignment())
            cb = {"kind": "assigned", "begin": world.log.add(world.now(), "cb_assigned_begin", m.cid),
                  "tps": sorted((tp.topic, tp.partition) for tp in assigned), "snapshot": snap,
                  "end": None, "served_from": len(served)}
            m.callbacks.append(cb)
            m.owned = set(cb["tps"])
            if m.spec["cb_delay"]:
                await asyncio.sleep(m.spec["cb_delay"] / 2)
            cb["snapshot_after"] = sorted((tp.topic, tp.partition) for tp in m.consumer.assignment())
            cb["end"] = world.log.add(world.now(), "cb_assigned_end", m.cid)

    def record(m, rec):
        tp = (rec.topic, rec.partition)
        seq = world.log.add(world.now(), "delivered", m.cid, tp[0], tp[1], rec.offset)
        m.deliveries.append((seq, tp, rec.offset, m.owned is not None and tp in m.owned,
                             len([c for c in m.callbacks if c["kind"] == "assigned"])))
        want = f"{tp[0]}-{tp[1]}@{rec.offset}".encode()
        if (rec.value or b"").rstrip(b".") != want:
            world.violation(prop if prop in ("C04", "C05") else "C05", "record_content_differs",
                            {"tp": list(tp), "offset": rec.offset, "got": repr(rec.value)[:60]})

    async def member_main(m):
        L.OWNER.set(m.cid)
        spec = m.spec
        ckw = dict(kw)
        if spec.get("static"):
            ckw["group_instance_id"] = "inst-" + m.cid.split("#")[0]
        consumer = AIOKafkaConsumer(
            bootstrap_servers=cl.bootstrap(), client_id=m.cid, group_id=GROUP,
            partition_assignment_strategy=mk_strategy(m.cid, spec["strategy"]), **ckw)
        m.consumer = consumer
        listener = m.listener = Listener(m)
        if spec.get("pattern"):
            consumer.subscribe(pattern="^t[0-9]+x?$", listener=listener)
        else:
            consumer.subscribe(spec["topics"], listener=listener)
        m.state = "starting"
        m.incarnation_start = world.log.seq
        try:
            await consumer.start()
        except Exception as exc:  # noqa: BLE001
            m.errors.append(("start", repr(exc), world.log.seq))
            m.state = "start_failed"
            try:
                await consumer.stop()
            except BaseException:  # noqa: BLE001
                pass
            m.state = "stopped"
            return
        m.state = "running"
        polls = 0
        while not m.stop_flag:
            try:
                if spec["poll"] == "getone":
                    try:
                        rec = await asyncio.wait_for(consumer.getone(), spec["poll_timeout_ms"] / 1000)
                    except asyncio.TimeoutError:
                        rec = None
                    if rec is not None:
                        record(m, rec)
                else:
                    res = await consumer.getmany(timeout_ms=spec["poll_timeout_ms"])
                    for tp_, recs in res.items():
                        for rec in recs:
                            record(m, rec)
                polls += 1
                nap = spec.get("nap")
                if nap and polls == nap["after_polls"]:
                    world.count_fault("poller_nap", world.now() + nap["d"] + kw["max_poll_interval_ms"] / 1000)
                    world.log.add(world.now(), "nap_begin", m.cid)
                    env_log.append((world.log.seq, world.now(), "nap", m.cid))
                    await asyncio.sleep(nap["d"])
                    world.log.add(world.now(), "nap_end", m.cid)
                    env_log.append((world.log.seq, world.now(), "nap_end", m.cid))
                if spec["commit_every"] and polls % spec["commit_every"] == 0:
                    await consumer.commit()
            except Errors.ConsumerStoppedError:
                break
            except asyncio.CancelledError:
                # nobody cancels the application's task in this harness: the library let a
                # CancelledError of one of its own futures escape from getone()/getmany()
                m.errors.append(("CancelledError", "escaped from the consumer API", world.log.seq))
                world.probe("cancelled_error_escaped_from_consumer_api")
                if not (m.stop_flag or m.state == "killed"):
                    world.violation(prop if prop in ("C04", "C05", "C06") else "C06",
                                    "consumer_api_raised_cancelled_error_nobody_requested",
                                    {"member": m.cid, "t": world.now() - world.t0,
                                     "faults": dict(world.fault_counts)})
                if os.environ.get("GROUP_DEBUG_STACKS") == m.cid:
                    import traceback
                    traceback.print_exc()
                if m.stop_flag or m.state == "killed":
                    raise
                await asyncio.sleep(0.01)
            except Errors.KafkaError as exc:
                # a raised error has to be consumed for coordination to continue
                m.errors.append((type(exc).__name__, repr(exc)[:200], world.log.seq))
                if os.environ.get("GROUP_DEBUG_STACKS") == m.cid:
                    import traceback
                    traceback.print_exc()
                if isinstance(exc, (Errors.NoOffsetForPartitionError, Errors.OffsetOutOfRangeError)):
                    _seek_after_none(m, exc)
                await asyncio.sleep(0.01)
        if os.environ.get("GROUP_DEBUG_STACKS") == m.cid:
            print("POLLER-LOOP-ENDED", m.cid, world.now() - world.t0, m.stop_flag)
        m.state = "stopping"
        env_log.append((world.log.seq, world.now(), "stop_begin", m.cid))
        try:
            await consumer.stop()
        except asyncio.CancelledError:
            world.probe("stop_raised_cancelled")
        env_log.append((world.log.seq, world.now(), "stop_end", m.cid))
        m.state = "stopped"

    def _seek_after_none(m, exc):
        """What an application does under auto_offset_reset='none': reposition exactly
        the partitions the error names (the others keep the position they have)."""
        from aiokafka.structs import TopicPartition
        named = exc.args[0] if exc.args else None
        if isinstance(named, dict):
            named = list(named)
        elif isinstance(named, TopicPartition):
            named = [named]
        else:
            named = []
        assigned = m.consumer.assignment()
        for tp in named:
            if tp not in assigned:
                continue
            part = cl.partition(tp.topic, tp.partition)
            try:
                m.consumer.seek(TopicPartition(tp.topic, tp.partition), part.log_start)
            except Exception:  # noqa: BLE001
                continue
            m.seeks.append((world.log.add(world.now(), "harness_seek", m.cid, tp.topic, tp.partition,
                                          part.log_start), (tp.topic, tp.partition), type(exc).__name__))
        m.seeked = True

    def start_member(spec, suffix=""):
        cid = spec["id"] + suffix
        m = MemberObs(cid, spec)
        members[cid] = m
        env_log.append((world.log.seq, world.now(), "join", cid))
        m.task = asyncio.ensure_future(member_main(m))
        return m

    def current(mid):
        cands = [m for cid, m in members.items() if cid.split("#")[0] == mid]
        return cands[-1] if cands else None

    def kill(m):
        if m.state in ("killed", "stopped"):
            return
        env_log.append((world.log.seq, world.now(), "kill", m.cid))
        world.log.add(world.now(), "kill", m.cid)
        m.state = "killed"
        world.loop.kill(m.cid)
        for c in world.net.conns:
            if c is not None and c.owner == m.cid and not c.server_closed:
                c.client_lost = True
                c.server_close("reset")
        world.count_fault("kill", world.now() + kw["session_timeout_ms"] / 1000)

    async def director():
        t0 = world.t0
        pending_joins = sorted([s for s in plan["members"]], key=lambda s: s["join_at"])
        events = [(s["join_at"], "join0", s) for s in pending_joins] + \
                 [(e["at"], e["do"], e) for e in plan["env"]]
        events.sort(key=lambda x: x[0])
        inc = {}
        for at, do, e in events:
            delay = t0 + at - world.now()
            if delay > 0:
                await asyncio.sleep(delay)
            if do == "join0":
                start_member(e)
            elif do == "join":
                start_member(e["spec"])
                world.count_fault("member_join")
            elif do in ("kill", "stop", "restart", "session_expire", "resubscribe"):
                m = current(e["member"])
                if m is None or m.state in ("killed", "stopped"):
                    continue
                if do == "kill":
                    kill(m)
                elif do == "stop":
                    m.stop_flag = True
                    world.count_fault("member_stop")
                elif do == "restart":
                    kill(m)
                    n = inc.get(e["member"], 0) + 1
                    inc[e["member"]] = n
                    start_member(m.spec, f"#{n}")
                    world.count_fault("member_restart")
                elif do == "session_expire":
                    if groups.expire_member(GROUP, m.cid):
                        world.count_fault("session_expire")
                elif do == "resubscribe" and m.consumer is not None and m.state == "running" \
                        and not m.spec.get("pattern"):
                    m.sub_changes.append(world.log.seq)
                    m.subscribed = list(e["topics"])
                    m.consumer.subscribe(e["topics"], listener=m.listener)
                    world.count_fault("resubscribe")
            elif do == "coordinator_move":
                world.faults._apply_env("coordinator_move", [0, GROUP, e["keep"]])
            elif do == "coordinator_loading":
                node = cl.coordinator_for(0, GROUP)
                world.faults._apply_env("coordinator_loading", [node, e["d"]])
            elif do == "broker_down":
                world.faults._apply_env("broker_down", [e["node"], e["d"]])
            elif do == "broker_failover":
                node = cl.coordinator_for(0, GROUP) if e["node"] == "coordinator" else e["node"]
                world.faults._apply_env("broker_failover", [node, e["d"]])
            elif do == "leader_unavailable":
                world.faults._apply_env("leader_unavailable", [e["topic"], e["p"], e["d"]])
            elif do == "leader_move":
                world.faults._apply_env("leader_move", [e["topic"], e["p"], e["node"]])
            elif do == "partitions_grow":
                top = cl.topics.get(e["topic"])
                if top is not None:
                    p = top.add_partition()
                    world.log.add(world.now(), "partitions_grow", e["topic"], p.index)
                    world.count_fault("partitions_grow",
                                      world.now() + 2 * kw["metadata_max_age_ms"] / 1000)
                    env_log.append((world.log.seq, world.now(), "metadata_change", None))
            elif do == "topic_create":
                cl.create_topic(e["topic"], e["partitions"])
                world.count_fault("topic_create", world.now() + 2 * kw["metadata_max_age_ms"] / 1000)
                env_log.append((world.log.seq, world.now(), "metadata_change", None))

    def on_client_fault(name, arg):
        # request-triggered environment change (plan["faults"]): a topic grows while the
        # triggering request is being served
        if name == "partitions_grow":
            top = cl.topics.get(arg)
            if top is not None:
                p = top.add_partition()
                world.log.add(world.now(), "partitions_grow", arg, p.index)
                world.count_fault("partitions_grow", world.now() + 2 * kw["metadata_max_age_ms"] / 1000)
                env_log.append((world.log.seq, world.now(), "metadata_change", None))

    world.subscribe("client_fault", on_client_fault)
    result = {}

    async def main():
        await director()
        # ---- quiet period: let the group converge --------------------------------------
        bound = group_bound(kw)
        last_append = max([a for lg in plan["logs"] for a in lg["appends"]] or [0.0])
        while True:
            quiet = max(world.last_fault_effect, world.t0 + last_append, world.now() if False else 0)
            if world.now() >= quiet + bound:
                break
            await asyncio.sleep(min(0.25, quiet + bound - world.now()))
        result["quiet_from"] = quiet
        result["liveness"] = snapshot_liveness()
        # stability window: generation must not change any more
        g = groups.groups.get(GROUP)
        gen_before = g.generation if g else None
        await asyncio.sleep(kw["session_timeout_ms"] / 1000 + kw["rebalance_timeout_ms"] / 1000)
        result["gen_before"] = gen_before
        result["gen_after"] = g.generation if g else None
        result["liveness2"] = snapshot_liveness()
        # ---- everything delivered? (C04) ------------------------------------------------
        for m in members.values():
            m.stop_flag = True
        tasks = [m.task for m in members.values() if m.state != "killed" and m.task is not None]
        if tasks:
            done, pend = await asyncio.wait(tasks, timeout=2 * bound)
            result["stop_hang"] = len(pend)
            for t in pend:
                t.cancel()
        await asyncio.sleep(0.05)

    def snapshot_liveness():
        for m_ in members.values():
            # an exception that is not a KafkaError ended the application's poll loop
            if m_.task is not None and m_.task.done() and not m_.task.cancelled() \
                    and m_.state not in ("killed", "stopped", "stopping") and m_.task.exception() is not None:
                m_.errors.append(("poller_died", repr(m_.task.exception())[:300], world.log.seq))
                m_.state = "poller_died"
        if os.environ.get("GROUP_DEBUG_STACKS"):
            for m_ in members.values():
                t = m_.task
                print("MEMBER-TASK", m_.cid, m_.state, t.done() if t else None,
                      t.get_context().get(L.OWNER, "sim") if t else None,
                      [f"{f.f_code.co_filename.rsplit('/', 1)[-1]}:{f.f_lineno}" for f in (t.get_stack(limit=3) if t and not t.done() else [])])
            for t in world.loop.all_tasks_created:
                if not t.done() and t.get_context().get(L.OWNER, "sim") == os.environ["GROUP_DEBUG_STACKS"]:
                    fr, coro = [], t.get_coro()
                    while coro is not None and len(fr) < 10:
                        f = getattr(coro, "cr_frame", None) or getattr(coro, "gi_frame", None)
                        if f is None:
                            break
                        fr.append(f"{f.f_code.co_filename.rsplit('/', 1)[-1]}:{f.f_lineno}")
                        coro = getattr(coro, "cr_await", None) or getattr(coro, "gi_yieldfrom", None)
                    print("LIVE-TASK", t.get_name(), fr)
        g = groups.groups.get(GROUP)
        live = [m for m in members.values() if m.state == "running"]
        snap = {"t": world.now(), "generation": g.generation if g else None,
                "state": g.state if g else None,
                "group_members": sorted(mm.client_id for mm in g.members.values()) if g else [],
                "live": sorted(m.cid for m in live), "assignments": {}, "last_contact": {},
                "npartitions": {t: len(top.partitions) for t, top in cl.topics.items()}}
        for m in live:
            try:
                snap["assignments"][m.cid] = sorted((tp.topic, tp.partition)
                                                    for tp in m.consumer.assignment())
            except Exception as exc:  # noqa: BLE001
                snap["assignments"][m.cid] = repr(exc)
        if g:
            for mm in g.members.values():
                snap["last_contact"][mm.client_id] = mm.last_contact
        return snap

    res = scenario.run(plan, world, main)
    res["nontrivial"] = bool(world.fault_counts) or len(plan["members"]) >= 2
    # what the applications saw (used by the C11 ride-along comparison)
    res["app_errors"] = sorted({e[0] if e[0] != "poller_died" else "poller_died:" + e[1].split("(")[0]
                                for m in members.values() for e in m.errors})
    res["ndelivered"] = sum(len(m.deliveries) for m in members.values())
    if res["status"] == "ok":
        ctx = {"members": members, "served": served, "env_log": env_log, "result": result,
               "delivered_resp": delivered_resp, "served_key": served_key, "leave_acks": leave_acks}
        if prop == "C04":
            oracle_c04(plan, world, cl, ctx)
        elif prop == "C05":
            oracle_c05(plan, world, cl, ctx)
        elif prop == "C06":
            oracle_c06(plan, world, cl, ctx)
        elif prop == "C13":
            oracle_c13(plan, world, cl, ctx)
    scenario.finish(res, world)
    return res


# ------------------------------------------------------------------------------------
# oracles


def _assign_windows(m):
    """[(assigned_cb, end_seq)] : each assignment incarnation of a member."""
    out = []
    cbs = m.callbacks
    for i, cb in enumerate(cbs):
        if cb["kind"] != "assigned":
            continue
        # lookups for this assignment can only have been served after the
        # revoke callback that preceded it began
        prev = [c for c in cbs[:i] if c["kind"] == "revoked"]
        cb["lo"] = prev[-1]["begin"] if prev else 0
        end = None
        for nxt in cbs[i + 1:]:
            if nxt["kind"] == "revoked":
                end = nxt["begin"]
                break
        out.append((cb, end))
    return out


def _starts_for(served, cid, tp, lo, hi):
    """Start-position candidates served to client cid for tp in seq window."""
    out = set()
    committed = None
    for (seq, client, kind, t, val) in served:
        if client != cid or t != tp or seq < lo or (hi is not None and seq > hi):
            continue
        if kind == "committed":
            committed = val
            if val >= 0:
                out.add(("committed", val))
        else:
            ts, off = val
            if off >= 0:
                out.add(("list", off))
    return out


def _iso(plan):
    return 1 if plan["kw"].get("isolation_level") == "read_committed" else 0


def check_deliveries(plan, world, cl, ctx, prop):
    """Shared C04(2)/C05: per assignment incarnation deliveries are the contiguous
    visible records from a start the brokers gave this member."""
    served = ctx["served"]
    for m in ctx["members"].values():
        wins = _assign_windows(m)
        for wi, (cb, end) in enumerate(wins):
            for tp in cb["tps"]:
                part = cl.partition(*tp)
                if part is None:
                    continue
                ds = [d for d in m.deliveries if d[1] == tp and d[0] > cb["begin"]
                      and (end is None or d[0] < end)]
                if not ds:
                    continue
                offs = [d[2] for d in ds]
                cands = _starts_for(served, m.cid, tp, cb["lo"], end)
                starts = {v for k, v in cands}
                if getattr(m, "seeked", False):
                    starts.add(part.log_start)
                vis = [r.offset for r, b in part.visible_records(_iso(plan))]
                nxt = {a: b for a, b in zip(vis, vis[1:])}
                firsts = {next((o for o in vis if o >= s_), None) for s_ in starts}
                first_ok = offs[0] in firsts
                cfirsts = {next((o for o in vis if o >= v), None) for k, v in cands if k == "committed"}
                if first_ok and offs[0] not in cfirsts and not getattr(m, "seeked", False) \
                        and plan["kw"].get("auto_offset_reset") != "none":
                    # started from a ListOffsets result: only legitimate when the coordinator
                    # answered "no committed offset" for this partition (or gave one that is
                    # out of range) - a lookup that failed or never covered the partition
                    # is not an answer, and re-delivery below the committed offset of the
                    # group would follow
                    told = [val for (sq, client, kind, t, val) in served
                            if client == m.cid and t == tp and kind == "committed"
                            and cb["lo"] <= sq <= ds[0][0]
                            and ctx["served_key"].get(sq) in ctx["delivered_resp"]]
                    end_now = max((st.last_offset + 1 for st in part.log), default=0)
                    if not any(v < 0 or v > end_now or v < part.log_start for v in told):
                        world.violation(prop, "position_reset_without_committed_offset_answer", {
                            "member": m.cid, "tp": list(tp), "first_delivered": offs[0],
                            "committed_answers": told[:5],
                            "group_committed": cl.group_offsets.get(GROUP, {}).get(tp, (None,))[0]})
                if not first_ok:
                    world.violation(prop, "delivery_not_from_handover_point", {
                        "member": m.cid, "tp": list(tp), "first_delivered": offs[0],
                        "served": sorted(map(list, cands))[:6]})
                for a, b in zip(offs, offs[1:]):
                    if nxt.get(a) != b:
                        world.violation(prop, "delivery_not_contiguous", {
                            "member": m.cid, "tp": list(tp), "after": a, "got": b,
                            "next_visible": nxt.get(a)})
                        break
        # a member that left the group by itself (LeaveGroup) owns nothing until it has
        # completed a SyncGroup again.  "Left" as the member knows it: from the moment the
        # LeaveGroup reply reached it (while the request is in flight, or its reply lost, a
        # poll that is already running may still hand out what it holds)
        tdel = {e[0]: e[1] for e in world.log.events if e[2] == "delivered"}
        leaves = [{"seq": sq, "t": t} for (sq, t) in ctx["leave_acks"].get(m.cid, [])]
        if leaves and any(e["kind"] == "leave" and e.get("client") == m.cid and e.get("code") == 0
                          for e in cl.groups.ledger):
            syncs = [e["seq"] for e in cl.groups.ledger if e["kind"] == "sync_resp"
                     and e.get("client") == m.cid and e.get("code") == 0]
            # requests of this member on the wire: the coordination routine closes the gate
            # only when the one it is waiting for (typically an auto-commit) has been answered
            writes = [(e[0], e[3], e[6]) for e in world.log.events
                      if e[2] == "c_write" and e[7] == m.cid and e[4] in ("OffsetCommit", "OffsetFetch")]
            answered = {(e[3], e[5][1]): (e[0], e[1]) for e in world.log.events
                        if e[2] == "c_recv" and isinstance(e[5], tuple)}
            # (a pattern subscriber refreshes its metadata first - one round trip - and only
            # then closes the gate: ensure_active_group, by design)
            grace = 1e-3
            if m.spec.get("pattern"):
                # (... which may queue behind a long-poll Fetch on the same connection)
                grace += 4 * plan["cluster"]["lat"][1] + 2 * plan["cluster"].get("service_time", 0.0) + 0.002 \
                    + plan["kw"]["fetch_max_wait_ms"] / 1000
            for d in m.deliveries:
                lv = [e for e in leaves if e["seq"] < d[0] and e["t"] + grace < tdel.get(d[0], 0)]
                if not lv:
                    continue
                last = lv[-1]
                if any(last["seq"] < sq < d[0] for sq in syncs):
                    continue
                busy = False
                for (wseq, conn, corr) in writes:
                    if wseq < last["seq"]:
                        a = answered.get((conn, corr))
                        if a is None or (a[0] > last["seq"] and a[1] + grace >= tdel.get(d[0], 0)):
                            busy = True
                            break
                if busy:
                    world.probe("delivered_after_leaving_while_commit_in_flight")
                    continue
                world.violation("C05" if prop != "C04" else prop, "record_delivered_after_leaving_group", {
                    "member": m.cid, "tp": list(d[1]), "offset": d[2], "left_at_seq": last["seq"],
                    "delivered_at_seq": d[0]})
                break
        # deliveries outside any ownership window
        for d in m.deliveries:
            if not d[3]:
                world.violation("C05" if prop != "C04" else prop, "record_delivered_while_not_owned", {
                    "member": m.cid, "tp": list(d[1]), "offset": d[2]})
                break


def oracle_c04(plan, world, cl, ctx):
    members = ctx["members"]
    served = ctx["served"]
    groups = cl.groups
    check_deliveries(plan, world, cl, ctx, "C04")
    # (1) accepted commits never pass undelivered records
    for ent in groups.ledger:
        if ent["kind"] != "commit" or ent["code"] != 0:
            continue
        cid = ent["client"]
        m = members.get(cid)
        if m is None:
            continue
        tp, c = tuple(ent["tp"]), ent["offset"]
        sw = ent["seq_write"]
        # the assignment incarnation the commit belongs to: last assigned cb before the send
        wins = [(cb, end) for cb, end in _assign_windows(m) if cb["begin"] < sw and tp in cb["tps"]]
        if not wins:
            world.violation("C04", "commit_for_partition_never_assigned",
                            {"member": cid, "tp": list(tp), "offset": c})
            continue
        cb, end = wins[-1]
        # "Handed to the application" is not tied to the current incarnation of the
        # assignment: commit() without arguments issued in one generation is retried by
        # the consumer through a rebalance and may be accepted under the member's next
        # generation; the records below it were handed out by this same consumer
        # before the call.  So deliveries of all of this member's incarnations before
        # the commit was written count, from any start position the brokers served it.
        ds = sorted(d[2] for d in m.deliveries if d[1] == tp and d[0] < sw)
        cands = {v for k, v in _starts_for(served, cid, tp, 0, sw)}
        if not any(cb["begin"] < d[0] < sw for d in m.deliveries if d[1] == tp):
            world.probe("commit_accepted_in_later_incarnation")
        if getattr(m, "seeked", False):
            cands.add(cl.partition(*tp).log_start)
        part = cl.partition(*tp)
        ok = False
        for s in cands:
            if s > c:
                continue
            need = [r.offset for r, b in part.visible_records(_iso(plan)) if s <= r.offset < c]
            if all(o in ds for o in need):
                ok = True
                break
        if not ok:
            world.violation("C04", "commit_passes_undelivered_records", {
                "member": cid, "tp": list(tp), "committed": c, "delivered": ds[-5:],
                "n_delivered": len(ds), "starts": sorted(cands)[:6], "generation": ent["generation"]})
    # (3) group as a whole delivered everything at least once
    res = ctx["result"]
    alive_end = [m for m in members.values() if m.state in ("stopped",) and m.deliveries is not None]
    any_alive = any(m.cid in (res.get("liveness2", {}).get("live") or []) for m in members.values())
    if any_alive and not res.get("stop_hang"):
        delivered = set()
        for m in members.values():
            for d in m.deliveries:
                delivered.add((d[1], d[2]))
        subscribed = set()
        for m in members.values():
            if m.cid in res["liveness2"]["live"]:
                subscribed |= set(m.subscribed)
        for part in cl.all_partitions():
            if part.topic.name not in subscribed:
                continue
            missing = [r.offset for r, b in part.visible_records(_iso(plan))
                       if (part.tp, r.offset) not in delivered]
            if missing:
                world.violation("C04", "record_never_delivered_to_any_member", {
                    "tp": list(part.tp), "missing": missing[:6], "n_missing": len(missing),
                    "committed": cl.group_offsets.get(GROUP, {}).get(part.tp),
                    "live": res["liveness2"]["live"], "faults": dict(world.fault_counts)})
    _ = alive_end


def oracle_c05(plan, world, cl, ctx):
    members = ctx["members"]
    groups = cl.groups
    check_deliveries(plan, world, cl, ctx, "C05")
    by_client = {}
    for ent in groups.ledger:
        by_client.setdefault(ent.get("client"), []).append(ent)
    for gen in groups.generations:
        if not gen["members"] or gen.get("assignments") is None:
            continue
        g = gen["generation"]
        assigns = {mid: parse_assignment(b) for mid, b in gen["assignments"].items()}
        mids = sorted(assigns)
        for i, a in enumerate(mids):
            for b in mids[i + 1:]:
                inter = assigns[a] & assigns[b]
                if inter:
                    world.violation("C05", "partition_assigned_to_two_members", {
                        "generation": g, "members": [a, b], "tps": sorted(map(list, inter))[:4]})
        for mid, tps in assigns.items():
            subs = set(parse_subscription(gen["members"][mid]))
            bad = [tp for tp in tps if tp[0] not in subs]
            if bad:
                world.violation("C05", "assigned_partition_of_unsubscribed_topic", {
                    "generation": g, "member": mid, "tps": sorted(map(list, bad))[:4],
                    "subscribed": sorted(subs)})
            for tp in tps:
                if cl.partition(*tp) is None:
                    world.violation("C05", "assigned_nonexistent_partition",
                                    {"generation": g, "member": mid, "tp": list(tp)})
        # adoption + barrier
        if g in getattr(groups.groups.get(GROUP), "quiet_swap_generations", ()):
            # a static leader was re-admitted into this Stable generation (broker without
            # KIP-814): it computed and sent a second distribution for the same generation
            # number, which the coordinator ignored - "the assignment distributed for the
            # generation" is ambiguous in the ledger, nothing is judged
            world.probe("adoption_not_judged_static_leader_swap")
            continue
        clients = gen.get("clients", {})
        sync_ok = {}  # client -> seq of successful sync_resp for this generation
        synced_mid = set()  # member ids that completed a SyncGroup in this generation
        for ent in groups.ledger:
            if ent["kind"] == "sync_resp" and ent.get("generation") == g and ent.get("code") == 0:
                sync_ok[ent["client"]] = ent["seq"]
                synced_mid.add(ent.get("member"))
        assigned_begin = {}
        for mid, cid in clients.items():
            m = members.get(cid)
            if m is None or cid not in sync_ok:
                continue
            if mid not in synced_mid:
                # a ghost: an earlier member id of the same client (its JoinGroup was cut off,
                # it joined again under a new id) that never synced and will expire
                continue
            nxt_join = next((e["seq"] for e in by_client.get(cid, [])
                             if e["kind"] == "join_req" and e["seq"] > sync_ok[cid]), None)
            cb = next((c for c in m.callbacks if c["kind"] == "assigned" and c["begin"] > sync_ok[cid]
                       and (nxt_join is None or c["begin"] < nxt_join)), None)
            if cb is None:
                continue  # member died / was superseded before adopting
            assigned_begin[cid] = cb["begin"]
            want = sorted(assigns.get(mid, set()))
            after = cb.get("snapshot_after", want)
            if m.spec.get("pattern") and after != want and any(
                    e[2] == "topic_create" and e[0] < (cb["end"] or 10**12) and e[1] > world.t0
                    for e in world.log.events if e[2] == "topic_create"):
                # a pattern subscription is replaced as soon as a metadata refresh shows a
                # new matching topic; if that happens while the callback is still
                # running, assignment() is empty until the rejoin ("pattern matches
                # appearing during a rebalance"): only the state at the start is judged
                world.probe("pattern_subscription_replaced_during_callback")
                after = want
            if cb["tps"] != want or cb["snapshot"] != want or after != want:
                if not any(s > sync_ok[cid] and s < (cb["end"] or 10**12) for s in m.sub_changes):
                    world.violation("C05", "adopted_assignment_differs_from_distributed", {
                        "generation": g, "member": cid, "distributed": want, "callback": cb["tps"],
                        "assignment()": cb["snapshot"], "after": cb.get("snapshot_after")})
        if assigned_begin:
            first_assigned = min(assigned_begin.values())
            for mid, cid in clients.items():
                m = members.get(cid)
                if m is None:
                    continue
                jr = [e for e in by_client.get(cid, []) if e["kind"] == "join_resp"
                      and e.get("generation") == g and e.get("code") == 0]
                if not jr:
                    continue
                rev = [c for c in m.callbacks if c["kind"] == "revoked" and c["begin"] < jr[0]["seq"]]
                if not rev:
                    continue
                last = rev[-1]
                if last["end"] is None or last["end"] > first_assigned:
                    if m.state == "killed" and last["end"] is None:
                        continue
                    world.violation("C05", "assigned_callback_before_all_revoked_finished", {
                        "generation": g, "member_revoking": cid, "revoke_end": last["end"],
                        "first_assigned_begin": first_assigned})


def oracle_c06(plan, world, cl, ctx):
    members = ctx["members"]
    groups = cl.groups
    res = ctx["result"]
    kw = plan["kw"]
    # (a) every JoinGroup lists all configured strategies, in order
    names = {"range": "range", "roundrobin": "roundrobin", "sticky": "sticky"}
    for ent in groups.ledger:
        if ent["kind"] != "join_req":
            continue
        m = members.get(ent["client"])
        if m is None:
            continue
        want = [names[s] for s in m.spec["strategy"]]
        if ent["protocols"] != want:
            world.violation("C06", "join_does_not_list_all_strategies", {
                "member": ent["client"], "sent": ent["protocols"], "configured": want,
                "version": ent["version"]})
    # (b) successful JoinGroup -> next group request of that member is its SyncGroup
    fault_seqs = sorted([e[0] for e in world.log.events if e[2] in ("fault", "kill", "coordinator_move",
                                                                      "s_close", "partitions_grow",
                                                                      "topic_create", "leader_move")])
    # an injected error reply acts when it reaches the member, one network trip after it fired
    fault_times = sorted(e[1] for e in world.log.events if e[2] == "fault")
    trip = 4 * plan["cluster"]["lat"][1] + plan["cluster"].get("service_time", 0.0) + 0.01
    by_client = {}
    for ent in groups.ledger:
        if ent.get("client") is not None and ent["kind"] in ("join_req", "join_resp", "sync_req"):
            by_client.setdefault(ent["client"], []).append(ent)
    by_sync = {}
    for ent in groups.ledger:
        if ent["kind"] == "sync_resp" and ent.get("code") == 0:
            by_sync.setdefault(ent["client"], []).append(ent)
    for cid, ents in by_client.items():
        m = members.get(cid)
        if m is None:
            continue
        for i, ent in enumerate(ents):
            if ent["kind"] != "join_resp" or ent.get("code") != 0:
                continue
            if (ent.get("conn"), "JoinGroup", ent.get("corr")) not in ctx["delivered_resp"]:
                continue  # the reply never reached the member
            nxt = next((e for e in ents[i + 1:] if e["kind"] in ("join_req", "sync_req")), None)
            if nxt is None:
                continue
            jreq = [e for e in ents[:i] if e["kind"] == "join_req"]
            lo = jreq[-1]["seq_write"] if jreq else ent["seq"]
            t_lo = jreq[-1]["t"] if jreq else ent["t"]
            # A rebalance attempt starts (final commit, revoke callback) well before its
            # JoinGroup is written, and the member checks its subscription only when
            # the reply arrives: a subscription change anywhere since the member last
            # completed a SyncGroup makes it, by design, discard the reply and join
            # again.  The property excludes that ("unless ... a subscription change
            # intervenes"), so the window for subscription changes starts there.
            syn = [e["seq"] for e in by_sync.get(cid, []) if e["seq"] < lo]
            lo_sub = syn[-1] if syn else 0
            hi = nxt["seq"]
            # duration faults (broker down, coordinator loading, stale metadata ...)
            # disturb for as long as they are in effect, not only when they fire
            slack = kw["request_timeout_ms"] / 1000
            # (a member the coordinator expelled between its JoinGroup reply and its SyncGroup
            # - too slow for the rebalance timeout - no longer has "the identity the reply assigned")
            expelled = any(e["kind"] == "expire" and e.get("member") == ent["member"]
                           and ent["seq"] <= e["seq"] <= hi for e in groups.ledger)
            disturbed = expelled or any(lo <= s <= hi for s in fault_seqs) or \
                any(t_lo - trip <= tf <= nxt["t"] for tf in fault_times) or \
                any(lo_sub <= s <= hi for s in m.sub_changes) or \
                any(lo - 5 <= e[0] <= hi for e in ctx["env_log"]) or \
                any(ts - 0.001 <= nxt["t"] and t_lo <= te + slack
                    for (_k, ts, te) in world.fault_windows if te > ts)
            if disturbed:
                continue
            if nxt["kind"] == "join_req":
                world.violation("C06", "join_followed_by_join_instead_of_sync", {
                    "member": cid, "generation": ent.get("generation"),
                    "next_protocols": nxt.get("protocols")})
            elif nxt["generation"] != ent["generation"] or nxt["member"] != ent["member"]:
                world.violation("C06", "sync_with_wrong_identity", {
                    "member": cid, "join_generation": ent["generation"], "sync_generation": nxt["generation"],
                    "join_member": ent["member"], "sync_member": nxt["member"]})
    # (c) bounded liveness
    if res.get("stop_hang"):
        return
    for key in ("liveness", "liveness2"):
        snap = res.get(key)
        if not snap:
            continue
        live = snap["live"]
        if not live:
            continue
        not_in = [cid for cid in live if cid not in snap["group_members"]]
        ctxd = {"when": key, "live": live, "group_members": snap["group_members"],
                "state": snap["state"], "generation": snap["generation"],
                "faults": dict(world.fault_counts), "quiet_from": res.get("quiet_from"),
                "t": snap["t"], "errors": {cid: members[cid].errors[-2:] for cid in live}}
        if not_in:
            world.violation("C06", "live_member_not_in_group", dict(ctxd, missing=not_in))
            continue
        if snap["state"] != "Stable":
            world.violation("C06", "group_not_stable_after_quiet", ctxd)
            continue
        stale = [cid for cid in live
                 if snap["t"] - snap["last_contact"].get(cid, 0) > kw["session_timeout_ms"] / 1000]
        if stale:
            world.violation("C06", "member_stopped_heartbeating", dict(ctxd, stale=stale))
        # cover: union of assignments == all partitions of all subscribed topics
        want = set()
        for cid in live:
            m = members[cid]
            tnames = m.subscribed
            if m.spec.get("pattern"):
                tnames = [t for t in cl.topics if t.startswith("t")]
            for t in tnames:
                top = cl.topics.get(t)
                if top:
                    # (the topic as it was when the snapshot was taken)
                    want |= {(t, i) for i in range(snap.get("npartitions", {}).get(t, len(top.partitions)))}
        got = []
        for cid in live:
            a = snap["assignments"].get(cid)
            if isinstance(a, list):
                got += [tuple(x) for x in a]
        if len(got) != len(set(got)):
            world.violation("C06", "partition_owned_twice_after_quiet", dict(ctxd, assignments=snap["assignments"]))
        g_model = groups.groups.get(GROUP)
        if set(got) != want and not (set(got) - want) and getattr(g_model, "quiet_leader_swaps", 0) \
                and (any(e["do"] in ("partitions_grow", "topic_create") for e in plan["env"])
                     or world.fault_counts.get("partitions_grow")):
            # the broker side kept a stale assignment (see simkit/group.py, KIP-814): not the
            # client's doing
            world.probe("coverage_not_judged_static_leader_swap")
        elif set(got) != want:
            world.violation("C06", "assignments_do_not_cover_subscribed_partitions", dict(
                ctxd, missing=sorted(map(list, want - set(got)))[:6],
                extra=sorted(map(list, set(got) - want))[:6]))
    if res.get("gen_before") is not None and res.get("gen_after") != res.get("gen_before"):
        world.violation("C06", "rebalance_after_quiet", {
            "before": res["gen_before"], "after": res["gen_after"], "faults": dict(world.fault_counts),
            "live": (res.get("liveness2") or {}).get("live")})


def _log_end_at(part, seq):
    """Log end offset of the partition model as of global event number seq."""
    return max((st.last_offset + 1 for st in part.log if st.seq <= seq), default=0)


def oracle_c13(plan, world, cl, ctx):
    """Group part: each assignment starts at the committed offset if one exists
    and is in range, else per policy."""
    members = ctx["members"]
    served = ctx["served"]
    policy = plan["kw"]["auto_offset_reset"]
    iso = 1 if plan["kw"].get("isolation_level") == "read_committed" else 0
    for m in members.values():
        prev_lo = lo_now = 0
        for cb, end in _assign_windows(m):
            prev_lo, lo_now = lo_now, cb["lo"]
            for tp in cb["tps"]:
                part = cl.partition(*tp)
                ds = [d for d in m.deliveries if d[1] == tp and d[0] > cb["begin"]
                      and (end is None or d[0] < end)]
                if not ds:
                    continue
                first = ds[0][2]
                cands = _starts_for(served, m.cid, tp, cb["lo"], ds[0][0])
                lists = sorted(v for k, v in cands if k == "list")

                def from_start(c):
                    fv = next((r.offset for r, b in part.visible_records(iso) if r.offset >= c), None)
                    return fv == first

                def seek_ok(prev_lo=prev_lo):
                    """Policy none: the error reached the poller, which repositioned this
                    partition (it may do so before the assigned callback of this
                    incarnation has begun).  NoOffsetForPartitionError is only justified
                    by a delivered "no committed offset" answer (error raised for the
                    previous incarnation's state and consumed in this one included)."""
                    for sq, t, en in m.seeks:
                        if t != tp or not cb["lo"] < sq < ds[0][0]:
                            continue
                        if en == "NoOffsetForPartitionError" and not any(
                                client == m.cid and t2 == tp and kind == "committed" and val < 0
                                and prev_lo <= s2 < sq
                                and ctx["served_key"].get(s2) in ctx["delivered_resp"]
                                for (s2, client, kind, t2, val) in served):
                            world.probe("no_offset_error_without_answer")
                            continue
                        return from_start(part.log_start)
                    return False

                def per_policy():
                    if policy == "none":
                        return seek_ok()
                    return any(from_start(s) for s in lists)

                # every OffsetFetch answer for tp that *reached* this member between the
                # revoke before this assignment and the first delivery (a reply lost on
                # the way told the member nothing), with the event number of the reply
                told = [(sq, val) for (sq, client, kind, t, val) in served
                        if client == m.cid and t == tp and kind == "committed"
                        and cb["lo"] <= sq <= ds[0][0]
                        and ctx["served_key"].get(sq) in ctx["delivered_resp"]]
                cserved = [(sq, val) for sq, val in told if val >= 0]
                told_none = any(val < 0 for sq, val in told)
                committed = [val for sq, val in cserved]
                end_hi = _log_end_at(part, ds[0][0])
                ends = []
                ok = False
                for c_seq, c in cserved:
                    # The broker judges the range when it serves the Fetch, some time
                    # between the OffsetFetch reply and the first delivery, and the log
                    # end moves while records are appended: in range for that whole
                    # window -> must start at c; out of range for the whole window ->
                    # per policy; otherwise the Fetch may have seen either.
                    end_lo = _log_end_at(part, c_seq)
                    ends.append(end_lo)
                    if part.log_start <= c <= end_lo:
                        ok = ok or from_start(c)
                    elif c > end_hi or c < part.log_start:
                        world.probe("committed_out_of_range")
                        ok = ok or per_policy()
                    else:
                        world.probe("committed_range_moved_during_lookup")
                        ok = ok or from_start(c) or per_policy()
                if not ok and policy == "none":
                    ok = seek_ok()
                elif not ok and told_none:
                    # "no committed offset" is itself an answer of the coordinator; an
                    # error reply or no reply at all is not, and must be retried
                    ok = per_policy()
                if not told:
                    world.probe("started_without_committed_answer")
                if not ok:
                    world.violation("C13", "group_member_started_at_wrong_offset", {
                        "member": m.cid, "tp": list(tp), "first_delivered": first,
                        "committed_served": committed, "told_no_committed_offset": told_none,
                        "list_offsets_served": lists[:6],
                        "policy": policy, "log_start": part.log_start,
                        "log_end_at_lookup": ends, "log_end_at_first_delivery": end_hi})
        if policy == "none":
            # missing / out-of-range committed offsets must surface as errors
            pass
