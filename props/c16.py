"""C16 - the transactional API is a strict state machine with recoverable and fatal errors."""
from props import txn_engine as E

PROP = "C16"
LEVEL = "fault_enumeration"
RUNS = {"quick": E.count_programs(4) + 3000, "thorough": E.count_programs(6) + 5000}
SHRINK_LISTS = ("calls",)
SHRINK_MIN = {"calls": 1}
RUN_TIMEOUT = 600


def gen_plan(seed, index, tier="quick"):
    return E.gen_plan_c16(seed, index, tier)


def execute(plan):
    return E.execute(plan)
