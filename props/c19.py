"""C19 - stop() always terminates and leaves nothing running."""
from props import stop_engine as E

PROP = "C19"
LEVEL = "fault_enumeration"
RUNS = {"quick": 240, "thorough": 6000}
SHRINK_LISTS = ("env",)
RUN_TIMEOUT = 600


def gen_plan(seed, index, tier="quick"):
    return E.gen_plan(seed, index, tier)


def execute(plan):
    return E.execute(plan)
