"""C07 - transactions are atomic and follow the transactional protocol order."""
from props import txn_engine as E

PROP = "C07"
LEVEL = "exploration"
RUNS = {"quick": 8000, "thorough": 400000}
SHRINK_LISTS = ("faults", "env", "producers", "txns", "tasks", "calls")
SHRINK_MIN = {"producers": 1, "txns": 1, "tasks": 1, "calls": 1}
RUN_TIMEOUT = 300


def gen_plan(seed, index, tier="quick"):
    if index % 4 == 3:
        # call programs x single (abortable / fatal / retriable) faults, judged by the
        # atomicity reader and the protocol-order monitor
        return E.gen_plan_c07_calls(seed, index, tier)
    return E.gen_plan_c07(seed, index, tier)


def execute(plan):
    return E.execute(plan)
