"""C07 - transactions are atomic and follow the transactional protocol order."""
from props import txn_engine as E

PROP = "C07"
LEVEL = "exploration"
RUNS = {"quick": 12000, "thorough": 400000}
SHRINK_LISTS = ("faults", "env", "producers", "txns", "tasks")
SHRINK_MIN = {"producers": 1, "txns": 1, "tasks": 1}
RUN_TIMEOUT = 300


def gen_plan(seed, index, tier="quick"):
    return E.gen_plan_c07(seed, index, tier)


def execute(plan):
    return E.execute(plan)
