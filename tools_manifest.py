"""Regenerates MANIFEST.json from the table below (kept next to the checks so
the manifest never drifts from what exists)."""
import json
import os

HERE = os.path.dirname(os.path.abspath(__file__))
NOTE = ("trusted base: CPython, asyncio streams/tasks, zlib, cramjam, the simulator (simkit) and its "
        "cluster model (DESIGN.md 2.4 / App. A); seeded sampling of schedules and fault sequences, "
        "not proof")
TECH = ("deterministic simulation: seeded schedule + fault search over the real client on a "
        "virtual-time asyncio event loop against a Kafka cluster reference model; online invariants "
        "+ history oracles; ddmin-minimised replay files")
NA = [
    ("C09", "pure function of its input (record sequence + attributes -> bytes -> records): no schedule, clock, fault or second party for a simulator to control; by-product only: every batch the simulated producers emit is parsed by an independent codec and every log the simulated consumers read was written by it"),
    ("C14", "assign(cluster, members) is a pure function of its arguments; enumerating layouts would be input enumeration, not simulation (by-product: every assignment the group simulations produce is checked for disjointness and cover under C05/C06)"),
    ("C15", "pure function of two consecutive assign() inputs; nothing concurrent, timed or faulty to simulate"),
    ("C17", "pure function of (key, partitions, available); nothing concurrent, timed or faulty to simulate"),
]
CHECKS = {
    "C01": ("exploration", "seeded exploration of send() interleavings x retriable fault sequences x starting sequence values; request-level invariants (one batch in flight per partition, consecutive sequences under Kafka's wrap rule) checked online at the transport, log-level order/loss/duplication checked on the history", "DESIGN.md 5 C01"),
    "C02": ("exploration", "seeded exploration over acks, idempotence, Produce v0-v7, CreateTime/LogAppendTime, flush()/stop() at arbitrary points, retriable faults then quiet; every future checked for single resolution, bounded resolution after the last fault effect, and true coordinates against the model's log", "DESIGN.md 5 C02"),
    "C03": ("exploration", "seeded exploration of log shapes (v0/v1/v2, wrappers, compaction gaps, empty/control batches, byte-cut responses) x concurrent getone/getmany/seek/pause/resume/position tasks x fetch faults; every delivery and position checked online against a sequential reference reader; bounded liveness after faults and appends stop", "DESIGN.md 5 C03"),
    "C08": ("exploration", "same engine over generated transactional logs (<=4 producers, committed/aborted/open transactions, compaction, solitary abort markers) at both isolation levels; reference reader from the model's aborted-transaction index; progress past filtered ranges", "DESIGN.md 5 C08"),
    "C12": ("exploration", "real AIOKafkaConnection / AIOKafkaClient.send against a scripted peer; the finite single-fault space (every 1-cut split of short responses, EOF/reset at every byte) is enumerated first, then seeded search over pipelining, timeouts, cancellation, wrong/duplicate/unsolicited ids, malformed frames, counter wrap", "DESIGN.md 5 C12"),
    "C13": ("exploration", "group-less consumers: policies earliest/latest/none x isolation levels x ListOffsets v0-v3 x retriable lookup faults x seek() racing with the reset; first position / first record must match a ListOffsets reply actually served, out-of-range seeks must reset or raise per policy; every fourth run is a 1-2 member consumer group against the coordinator model with committed offsets absent / inside / beyond the log end, growing logs, member and coordinator faults: each assignment must start at a committed offset the coordinator served, judged against the log range at lookup time, else per policy", "DESIGN.md 5 C13"),
    "C18": ("exploration", "real connect() with SCRAM-SHA-256/512 (handshake v0 raw tokens and v1) against an RFC 5802 server model: honest, wrong password, single-field tampering of either server message, impostor; client messages validated against the RFC grammar, login must succeed iff the server is honest and knows the password", "DESIGN.md 5 C18"),
}


def main():
    checks = []
    for pid, (cat, text, ref) in sorted(CHECKS.items()):
        checks.append({
            "property_id": pid, "quick_cmd": f"./check {pid} quick",
            "thorough_cmd": f"./check {pid} thorough",
            "evidence_file": f"/verif/evidence/{pid}.json",
            "replay_cmd_template": "./check replay {path}", "engine": "simkit",
            "level_claimed": {"category": cat, "text": text, "design_ref": ref},
            "level_note": NOTE, "technique": TECH})
    claimed = set(CHECKS)
    na = [{"property_id": p, "reason": r} for p, r in NA]
    for pid in ("C04", "C05", "C06", "C07", "C10", "C11", "C16", "C19"):
        if pid not in claimed:
            na.append({"property_id": pid, "reason": "not claimed yet: its engine is still under construction in this session (see DESIGN.md); will move to checks when it lands"})
    m = {
        "version": 1,
        "setup_cmd": "/venv/bin/python -c \"import Cython, cramjam, async_timeout; print('ok')\" && test -x /verif/check",
        "hooks": {"guard": "AIOKAFKA_VERIF",
                  "enable": "no source hooks: all seams (loop clock, loop.create_connection, run_in_executor, time/random/uuid modules) are owned by the simulator; AIOKAFKA_VERIF=1 is only set in worker processes",
                  "baseline_off_cmd": "cd /repo && /venv/bin/python -m pytest -ra -q -p no:cacheprovider --timeout=900 --continue-on-collection-errors",
                  "source_commits": [], "add_only": True},
        "engines": [{"name": "simkit", "path": "/verif/simkit", "serves_properties": sorted(claimed),
                     "kind_free_text": "deterministic simulation with fault injection: custom asyncio event loop on virtual time, in-memory transports, cluster/group/transaction reference model with independent wire and record codecs, seeded plan search, ddmin minimisation, replay files"}],
        "checks": checks,
        "notes": "see DESIGN.md; known findings in known_findings.json",
        "not_applicable": na,
    }
    with open(os.path.join(HERE, "MANIFEST.json"), "w") as f:
        json.dump(m, f, indent=1)


main()
