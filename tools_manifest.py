"""Regenerates MANIFEST.json from the table below (kept next to the checks so
the manifest never drifts from what exists)."""
import json
import os

HERE = os.path.dirname(os.path.abspath(__file__))
NOTE = ("trusted base: CPython, asyncio streams/tasks, zlib, cramjam, the simulator (simkit) and its "
        "cluster model (DESIGN.md 2.4 / App. A); seeded sampling of schedules and fault sequences, "
        "not proof")
TECH_C10 = ("fault injection at the decoder seam: enumeration of single storage/transport corruptions over a corpus, "
            "compiled codec under AddressSanitizer with journalled case ids, plus corrupted segments served through "
            "the simulated fetch path to a real consumer on the virtual-time loop")
TECH = ("deterministic simulation: seeded schedule + fault search over the real client on a "
        "virtual-time asyncio event loop against a Kafka cluster reference model; online invariants "
        "+ history oracles; ddmin-minimised replay files")
NA = [
    ("C09", "pure function of its input (record sequence + attributes -> bytes -> records): no schedule, clock, fault or second party for a simulator to control; by-product only: every batch the simulated producers emit is parsed by an independent codec and every log the simulated consumers read was written by it"),
    ("C14", "assign(cluster, members) is a pure function of its arguments; enumerating layouts would be input enumeration, not simulation (by-product: every assignment the group simulations produce is checked for disjointness and cover under C05/C06)"),
    ("C15", "pure function of two consecutive assign() inputs; nothing concurrent, timed or faulty to simulate"),
    ("C17", "pure function of (key, partitions, available); nothing concurrent, timed or faulty to simulate"),
]
CHECKS = {
    "C01": ("exploration", "seeded exploration of send() interleavings x retriable fault sequences x starting sequence values; request-level invariants (one batch in flight per partition, consecutive sequences under Kafka's wrap rule) checked online at the transport, log-level order/loss/duplication checked on the history", "DESIGN.md 5 C01"),
    "C02": ("exploration", "seeded exploration over acks, idempotence, Produce v0-v7, CreateTime/LogAppendTime, flush()/stop() at arbitrary points, retriable faults then quiet; every future checked for single resolution, bounded resolution after the last fault effect, and true coordinates against the model's log", "DESIGN.md 5 C02"),
    "C03": ("exploration", "seeded exploration of log shapes (v0/v1/v2, wrappers, compaction gaps, empty/control batches, byte-cut responses) x concurrent getone/getmany/seek/pause/resume/position tasks x fetch faults; every delivery and position checked online against a sequential reference reader; bounded liveness after faults and appends stop", "DESIGN.md 5 C03"),
    "C08": ("exploration", "same engine over generated transactional logs (<=4 producers, committed/aborted/open transactions, compaction, solitary abort markers) at both isolation levels; reference reader from the model's aborted-transaction index; progress past filtered ranges", "DESIGN.md 5 C08"),
    "C10": ("fault_enumeration", "storage / transport corruption enumerated over a corpus of ~45 valid buffers (v0/v1/v2, plain and every codec, control / transactional / empty batches, mixed formats) written by an independent codec and by the builders under test: every truncation point, a per-tier value set for every byte (all 255 in thorough) with and without repairing the v2 checksum, boundary values for every fixed-width length / count / offset / epoch field, hostile varints in the records section, compressed payloads with inconsistent or garbage inner content, short random frames; each corrupted buffer is decoded with and without checksum validation by the compiled codec - rebuilt from the working tree with AddressSanitizer, case ids journalled so an abort names the input - and by the pure-Python codec: no crash, no ASan report, no SystemError / MemoryError, termination, and a flipped checksum-covered byte is never reported valid; a sample of corrupted segments is also served by the simulated broker to a real consumer (fetch task must survive, consumer usable after seeking past the segment)", "DESIGN.md 5 C10"),
    "C11": ("exploration", "PARTIAL SCOPE (stated): the clauses of C11 that involve a peer, for every message the producer, consumer, group member, transactional producer and connection exchange with a broker. Brokers speak through an independent, hand-written wire codec and advertise a seeded (min,max) range per API; fault-free workloads of the other engines run twice (newest versions vs random ranges that still overlap the client's): every request must carry the highest common version inside the advertised range, parse under the schema of exactly that version with no trailing bytes and re-encode byte-identically, every reply encoded with that version's schema must be usable (a workload that passes its own oracles in the control run must pass them under the ranged table); feature runs pit transactional id / isolation level / coordinator type / timestamp search against brokers too old to express them and clients against disjoint ranges and ranges inside a hole of the client's version list (no request may be written, the call must fail, not hang). NOT decided here (pure functions of their input, no peer, no schedule): round-tripping all in-range values of all 100+ structs, admin-only structs, tagged fields and flexible-version primitives no simulated exchange uses, authorized operations", "DESIGN.md 5 C11"),
    "C12": ("exploration", "real AIOKafkaConnection / AIOKafkaClient.send against a scripted peer; the finite single-fault space (every 1-cut split of short responses, EOF/reset at every byte) is enumerated first, then seeded search over pipelining, timeouts, cancellation, wrong/duplicate/unsolicited ids, malformed frames, counter wrap", "DESIGN.md 5 C12"),
    "C13": ("exploration", "group-less consumers: policies earliest/latest/none x isolation levels x ListOffsets v0-v3 x retriable lookup faults x seek() racing with the reset; first position / first record must match a ListOffsets reply actually served, out-of-range seeks must reset or raise per policy; every fourth run is a 1-2 member consumer group against the coordinator model with committed offsets absent / inside / beyond the log end, growing logs, member and coordinator faults: each assignment must start at a committed offset the coordinator served, judged against the log range at lookup time, else per policy", "DESIGN.md 5 C13"),
    "C04": ("exploration", "consumer groups of 1-4 real members (plus late joiners and replacements) on one loop against the group-coordinator model: members killed (no leave, no final commit), stopped, restarted, session-expired, coordinator moved / loading, commit replies failing or delayed, data-partition leaders moving; plain and rich logs (transactions, markers, compaction, legacy/compressed batches) at both isolation levels; every commit the coordinator accepted is checked against the records that member had been handed before it wrote the request, every assignment must start at an offset the brokers served (a reset only after a delivered 'no committed offset' answer), and after the quiet period the group as a whole has delivered every visible record", "DESIGN.md 5 C04"),
    "C05": ("exploration", "same group engine with rebalance listeners of seeded duration, equal / different / pattern subscriptions, range / round-robin / sticky assignors, partition growth, topic creation, resubscription during a rebalance: per generation the distributed assignments (decoded by an independent ConsumerProtocol parser) are disjoint and within each member's subscription, each member adopts exactly what it was sent, nothing is delivered between revoke and the next assign containing the partition, deliveries of an incarnation are the contiguous visible records from its start, and all revoke callbacks of a generation finish before its first assigned callback begins", "DESIGN.md 5 C05"),
    "C06": ("exploration", "same group engine with heavier coordinator faults (every documented error code on JoinGroup/SyncGroup/Heartbeat/OffsetCommit/OffsetFetch/FindCoordinator/LeaveGroup replies, drops, lost replies, delays, coordinator move with and without state, loading windows, session expiry, broker outages), JoinGroup v0-v5 and OffsetFetch v1-v3 brokers, 1-3 assignors, static members: request-ledger clauses (every JoinGroup lists all strategies in order; a delivered successful JoinGroup reply is followed by that member's SyncGroup unless a fault, a duration fault or a subscription change since its last SyncGroup intervenes) and bounded liveness after the last fault effect (every live member in the latest generation, heartbeating, assignments partition the subscribed partitions, no further rebalance); a client task spinning at one virtual instant is a violation", "DESIGN.md 5 C06"),
    "C07": ("exploration", "1-2 real transactional producers (plus a replacement with the same transactional id after a kill, and zombies via stall) against the transaction-coordinator model: 1-6 transactions with concurrent send tasks, send_offsets_to_transaction, commit or abort via calls or the context manager; retriable faults on every transactional API, Produce and FindCoordinator, coordinator moves / loading, broker outages, leader moves, natural CONCURRENT_TRANSACTIONS from marker latency; online protocol-order monitor (no transactional Produce before the AddPartitionsToTxn acknowledgement reached the producer, no EndTxn with an unresolved send future, no transactional batch outside an Ongoing transaction) and an independent read-committed reader over the final logs and group offsets (committed => all once, aborted/failed/fenced => none, in doubt => all or none); bounded liveness of every call under retriable faults", "DESIGN.md 5 C07"),
    "C16": ("fault_enumeration", "every call sequence up to length 4 over {begin, send(p0), send(p1), send_offsets, commit, abort, context exit ok / with exception} (4680 programs, exhaustive) plus seeded length 5-6 programs in quick, length <= 6 exhaustively in thorough; each program is run fault-free, its transactional requests are recorded, and single-fault variants (abortable, fatal, retriable error replies, lost replies, dropped connections at the n-th request of each API) are derived from them and run; every call's outcome is judged against a READY/IN_TXN/ABORTABLE/FATAL reference model, out-of-order calls must raise without coordinator-visible effect, an abortable error must be recoverable by abort + a fresh transaction, after a fatal error nothing more is written and pending sends fail; the C07 read-committed reader runs on every history", "DESIGN.md 5 C16"),
    "C19": ("fault_enumeration", "producer, transactional producer, group consumer and group-less consumer workloads with the cluster healthy, one broker black-holed, or failing over (coordinator move / loading, broker down, leader move): the scenario is run once to count its events after start(), then re-run with stop() issued right after event k (seeded sample of k in quick, 40 per scenario in thorough, all k when the scenario is short); stop() must return within a bound computed from the run's request / session / rebalance timeouts, afterwards no task, timer or open transport owned by the client may remain, API calls blocked at the time must have been released, later calls raise the documented error, and a reachable coordinator has seen the member leave", "DESIGN.md 5 C19"),
    "C18": ("exploration", "real connect() with SCRAM-SHA-256/512 (handshake v0 raw tokens and v1) against an RFC 5802 server model: honest, wrong password, single-field tampering of either server message, impostor; client messages validated against the RFC grammar, login must succeed iff the server is honest and knows the password", "DESIGN.md 5 C18"),
}


def main():
    checks = []
    for pid, (cat, text, ref) in sorted(CHECKS.items()):
        checks.append({
            "property_id": pid, "quick_cmd": f"./check {pid} quick",
            "thorough_cmd": f"./check {pid} thorough",
            "evidence_file": f"/verif/evidence/{pid}.json",
            "replay_cmd_template": "./check replay {path}", "engine": "simkit",
            "level_claimed": {"category": cat, "text": text, "design_ref": ref},
            "level_note": NOTE, "technique": TECH_C10 if pid == "C10" else TECH})
    claimed = set(CHECKS)
    na = [{"property_id": p, "reason": r} for p, r in NA]

    m = {
        "version": 1,
        "setup_cmd": "/venv/bin/python -c \"import Cython, cramjam, async_timeout; print('ok')\" && test -x /verif/check",
        "hooks": {"guard": "AIOKAFKA_VERIF",
                  "enable": "no source hooks: all seams (loop clock, loop.create_connection, run_in_executor, time/random/uuid modules) are owned by the simulator; AIOKAFKA_VERIF=1 is only set in worker processes",
                  "baseline_off_cmd": "cd /repo && /venv/bin/python -m pytest -ra -q -p no:cacheprovider --timeout=900 --continue-on-collection-errors",
                  "source_commits": [], "add_only": True},
        "engines": [{"name": "simkit", "path": "/verif/simkit", "serves_properties": sorted(claimed),
                     "kind_free_text": "deterministic simulation with fault injection: custom asyncio event loop on virtual time, in-memory transports, cluster/group/transaction reference model with independent wire and record codecs, seeded plan search, ddmin minimisation, replay files"}],
        "checks": checks,
        "notes": "see DESIGN.md; known findings in known_findings.json",
        "not_applicable": na,
    }
    with open(os.path.join(HERE, "MANIFEST.json"), "w") as f:
        json.dump(m, f, indent=1)


main()
